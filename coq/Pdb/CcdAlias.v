(* Model of shorten_ccd_codes / restore_full_ccd_codes (src/polyheur.cpp): residue names longer than 3 characters
   get 3-character aliases for the PDB format.

     names = the distinct long names, in order of first appearance          (collect_long)
     pass 1: for each entry in order: code = "~" + last two characters; if no entry has that alias yet: take it
     pass 2: one counter i = -1 shared by all entries; for each entry in order that has no alias yet:
               while (alias empty && ++i < 'Z'*10): code = "~" + char('0'+i/10) + char('0'+i%10);
                                                     if no entry has that alias: take it
             then rename_residues(old -> alias)
     restore: for each entry rename_residues(alias -> old).                                                     *)
From GV Require Export Base.Str.
Local Open Scope Z_scope.

Definition entry := (str * str)%type.      (* long name, alias ([] = none yet) *)

Definition has_alias (code : str) (v : list entry) : bool := existsb (fun p => str_eqb (snd p) code) v.
Definition has_name (name : str) (v : list entry) : bool := existsb (fun p => str_eqb (fst p) name) v.

(* the long names of a list of residue names, without repetition, in order of first appearance *)
Fixpoint collect_long (names : list str) (v : list entry) : list entry :=
  match names with
  | [] => v
  | n :: t => if (Nat.ltb 3 (length n)) && negb (has_name n v) then collect_long t (v ++ [(n, [])])
              else collect_long t v
  end.

Definition last_two_alias (old : str) : str :=
  [126; nth (length old - 2) old 0; nth (length old - 1) old 0].

(* pass 1 over the vector in place: done = entries already visited, todo = the rest (still without alias) *)
Fixpoint pass1 (done todo : list entry) : list entry :=
  match todo with
  | [] => done
  | (old, _) :: t =>
    let code := last_two_alias old in
    let taken := has_alias code done || has_alias code t in
    pass1 (done ++ [(old, if taken then [] else code)]) t
  end.

Definition num_alias (i : Z) : str := [126; 48 + i / 10; 48 + i mod 10].
Definition limit : Z := 900.     (* 'Z' * 10 *)

(* the while loop for one entry: returns the new counter and the alias found ([] when the counter ran out) *)
Fixpoint take_number (fuel : nat) (i : Z) (others : list entry) : Z * str :=
  match fuel with
  | O => (i, [])
  | S f =>
    let i' := i + 1 in
    if negb (i' <? limit) then (i', [])
    else let code := num_alias i' in
         if has_alias code others then take_number f i' others else (i', code)
  end.

Fixpoint pass2 (fuel : nat) (i : Z) (done todo : list entry) : list entry :=
  match todo with
  | [] => done
  | (old, a) :: t =>
    match a with
    | [] => let '(i', code) := take_number fuel i (done ++ t) in pass2 fuel i' (done ++ [(old, code)]) t
    | _ => pass2 fuel i (done ++ [(old, a)]) t
    end
  end.

Definition shorten_table (names : list str) : list entry :=
  pass2 (Z.to_nat 1000) (-1) [] (pass1 [] (collect_long names [])).

(* rename_residues(old, new) on the list of residue names *)
Definition rename (old new : str) (names : list str) : list str :=
  map (fun n => if str_eqb n old then new else n) names.

Definition apply_shorten (table : list entry) (names : list str) : list str :=
  fold_left (fun ns p => rename (fst p) (snd p) ns) table names.
Definition apply_restore (table : list entry) (names : list str) : list str :=
  fold_left (fun ns p => rename (snd p) (fst p) ns) table names.
