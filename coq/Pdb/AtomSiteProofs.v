(* regroup (flatten s) = s for well-formed structures: the reader's model / chain / residue switches rebuild
   exactly the hierarchy the writer flattened. *)
From Coq Require Import Lia ZifyBool.
From GV Require Import Base.Str Pdb.AtomSite.
Local Open Scope Z_scope.

Lemma str_eqb_refl : forall s, str_eqb s s = true.
Proof. induction s as [|c s IH]; [reflexivity|]. cbn [str_eqb]. rewrite Z.eqb_refl, IH. reflexivity. Qed.

Lemma rid_match_refl : forall r, rid_match r r = true.
Proof.
  intros [[n k] i]. unfold rid_match. rewrite str_eqb_refl, Z.eqb_refl, Z.lxor_nilpotent. reflexivity.
Qed.

(* ---------------------------------------------------------------- well-formedness *)
Fixpoint wf_rs (rs : list residue) : Prop :=
  match rs with
  | [] => True
  | x :: t => snd x <> [] /\ (forall y, In y t -> rid_match (fst x) (fst y) = false) /\ wf_rs t
  end.
Definition name_differs (prev : option str) (n : str) : Prop :=
  match prev with Some p => str_eqb p n = false | None => True end.
Fixpoint wf_cs (prev : option str) (cs : list chain) : Prop :=
  match cs with
  | [] => True
  | c :: t => name_differs prev (fst c) /\ snd c <> [] /\ wf_rs (snd c) /\ wf_cs (Some (fst c)) t
  end.
Definition wf_model (m : model) : Prop := snd m <> [] /\ wf_cs None (snd m).
(* WFs: model numbers pairwise distinct; adjacent chains of a model differ in name; the residues of a chain
   have pairwise non-matching ids; no empty model, chain or residue *)
Definition WFs (s : structure) : Prop := NoDup (map fst s) /\ Forall wf_model s.

(* ---------------------------------------------------------------- residue level *)
Definition no_match (rs : list residue) (r : rid) : Prop := forall x, In x rs -> rid_match (fst x) r = false.

Lemma add_atom_new : forall rs r a, no_match rs r -> add_atom rs r a = rs ++ [(r, [a])].
Proof.
  induction rs as [|[r0 l] t IH]; intros r a H; [reflexivity|]. cbn [add_atom app].
  pose proof (H (r0, l) (or_introl eq_refl)) as H0. cbn [fst] in H0. rewrite H0.
  rewrite IH; [reflexivity|]. intros x Hx. apply H. right. exact Hx.
Qed.

Lemma add_atom_last : forall rs r l a, no_match rs r -> add_atom (rs ++ [(r, l)]) r a = rs ++ [(r, l ++ [a])].
Proof.
  induction rs as [|[r0 l0] t IH]; intros r l a H.
  - cbn. rewrite rid_match_refl. reflexivity.
  - cbn [add_atom app]. pose proof (H (r0, l0) (or_introl eq_refl)) as H0. cbn [fst] in H0. rewrite H0.
    rewrite IH; [reflexivity|].
    intros x Hx. apply H. right. exact Hx.
Qed.

(* ---------------------------------------------------------------- lifting to the reader state *)
Lemma has_model_in : forall num ms, has_model num ms = true <-> In num (map fst ms).
Proof.
  induction ms as [|[n cs] t IH]; [cbn; split; [discriminate|tauto]|]. cbn [has_model map fst In].
  rewrite Bool.orb_true_iff, IH, Z.eqb_eq. tauto.
Qed.
Lemma has_model_false : forall num ms, ~ In num (map fst ms) -> has_model num ms = false.
Proof. intros num ms H. destruct (has_model num ms) eqn:E; [|reflexivity]. apply has_model_in in E. tauto. Qed.

Lemma upd_model_last : forall num f ms cs, ~ In num (map fst ms) ->
  upd_model num f (ms ++ [(num, cs)]) = ms ++ [(num, f cs)].
Proof.
  induction ms as [|[n c0] t IH]; intros cs H.
  - cbn. rewrite Z.eqb_refl. reflexivity.
  - cbn [app upd_model]. cbn [map fst In] in H.
    replace (n =? num) with false by lia. rewrite IH by tauto. reflexivity.
Qed.

Lemma upd_last_app : forall A (f : A -> A) l x, upd_last f (l ++ [x]) = l ++ [f x].
Proof. intros. unfold upd_last. rewrite rev_app_distr. cbn. rewrite rev_involutive. reflexivity. Qed.
Lemma last_name_app : forall cs c, last_name (cs ++ [c]) = Some (fst c).
Proof. intros. unfold last_name. rewrite rev_app_distr. reflexivity. Qed.

(* a row for the current chain of the current model *)
Lemma add_row_same : forall ms num cs cn rs r a, ~ In num (map fst ms) ->
  add_row (ms ++ [(num, cs ++ [(cn, rs)])], Some num, true) (num, cn, r, a)
  = (ms ++ [(num, cs ++ [(cn, add_atom rs r a)])], Some num, true).
Proof.
  intros. unfold add_row. rewrite Z.eqb_refl. cbn [negb andb].
  rewrite upd_model_last by assumption. unfold add_to_chains.
  rewrite last_name_app. cbn [fst andb]. rewrite str_eqb_refl, upd_last_app. reflexivity.
Qed.

(* a row that starts a new chain acts like the same row after an empty chain has been appended *)
Lemma add_row_new_chain : forall ms num cs cn r a, ~ In num (map fst ms) ->
  name_differs (last_name cs) cn ->
  add_row (ms ++ [(num, cs)], Some num, true) (num, cn, r, a)
  = add_row (ms ++ [(num, cs ++ [(cn, [])])], Some num, true) (num, cn, r, a).
Proof.
  intros ms num cs cn r a Hn Hd. unfold add_row. rewrite Z.eqb_refl. cbn [negb andb].
  rewrite !upd_model_last by assumption. unfold add_to_chains at 2.
  rewrite last_name_app. cbn [fst andb]. rewrite str_eqb_refl.
  unfold add_to_chains. destruct (last_name cs) as [p|]; cbn in Hd; [rewrite Hd|]; reflexivity.
Qed.

(* a row that starts a new model acts like the same row after the model with an empty chain has been appended *)
Lemma add_row_new_model : forall ms cur ok num cn r a, ~ In num (map fst ms) ->
  match cur with Some n => In n (map fst ms) | None => True end ->
  add_row (ms, cur, ok) (num, cn, r, a)
  = add_row (ms ++ [(num, [(cn, [])])], Some num, true) (num, cn, r, a).
Proof.
  intros ms cur ok num cn r a Hn Hc. unfold add_row. rewrite Z.eqb_refl. cbn [negb andb].
  assert (Hs : match cur with Some n => negb (n =? num) | None => true end = true).
  { destruct cur as [n|]; [|reflexivity]. destruct (n =? num) eqn:E; [|reflexivity].
    apply Z.eqb_eq in E. subst. tauto. }
  rewrite Hs, (has_model_false _ _ Hn). cbn [negb andb].
  rewrite !upd_model_last by assumption. unfold add_to_chains. cbn. rewrite str_eqb_refl. reflexivity.
Qed.

(* ---------------------------------------------------------------- folding rows *)
Lemma fold_atoms : forall atoms ms num cs cn rs r l, ~ In num (map fst ms) -> no_match rs r ->
  fold_left add_row (map (fun a => (num, cn, r, a)) atoms) (ms ++ [(num, cs ++ [(cn, rs ++ [(r, l)])])], Some num, true)
  = (ms ++ [(num, cs ++ [(cn, rs ++ [(r, l ++ atoms)])])], Some num, true).
Proof.
  induction atoms as [|a t IH]; intros ms num cs cn rs r l Hn Hm; [rewrite app_nil_r; reflexivity|].
  cbn [map fold_left]. rewrite add_row_same by assumption. rewrite add_atom_last by assumption.
  rewrite IH by assumption. rewrite <- app_assoc. reflexivity.
Qed.

Lemma fold_residue : forall res ms num cs cn rs, ~ In num (map fst ms) -> no_match rs (fst res) -> snd res <> [] ->
  fold_left add_row (rows_of_residue num cn res) (ms ++ [(num, cs ++ [(cn, rs)])], Some num, true)
  = (ms ++ [(num, cs ++ [(cn, rs ++ [res])])], Some num, true).
Proof.
  intros [r atoms] ms num cs cn rs Hn Hm Hne. cbn [fst snd] in *. unfold rows_of_residue. cbn [fst snd].
  destruct atoms as [|a t]; [congruence|]. cbn [map fold_left].
  rewrite add_row_same by assumption. rewrite add_atom_new by assumption.
  rewrite fold_atoms by assumption. reflexivity.
Qed.

Lemma fold_residues : forall rs2 ms num cs cn rs1, ~ In num (map fst ms) ->
  (forall x y, In x rs1 -> In y rs2 -> rid_match (fst x) (fst y) = false) -> wf_rs rs2 ->
  fold_left add_row (flat_map (rows_of_residue num cn) rs2) (ms ++ [(num, cs ++ [(cn, rs1)])], Some num, true)
  = (ms ++ [(num, cs ++ [(cn, rs1 ++ rs2)])], Some num, true).
Proof.
  induction rs2 as [|res t IH]; intros ms num cs cn rs1 Hn Hx Hwf; [rewrite app_nil_r; reflexivity|].
  cbn [flat_map]. rewrite fold_left_app. destruct Hwf as (Hne & Hlater & Hwf).
  rewrite fold_residue; [|assumption| |assumption].
  - rewrite IH; [rewrite <- app_assoc; reflexivity|assumption| |assumption].
    intros x y Hin Hy. apply in_app_or in Hin. destruct Hin as [Hin|[<-|[]]].
    + apply Hx; [assumption|right; assumption].
    + apply Hlater. assumption.
  - intros x Hin. apply Hx; [assumption|left; reflexivity].
Qed.

(* a whole new chain appended to the current model *)
Lemma fold_chain : forall c ms num cs, ~ In num (map fst ms) -> name_differs (last_name cs) (fst c) ->
  snd c <> [] -> wf_rs (snd c) ->
  fold_left add_row (rows_of_chain num c) (ms ++ [(num, cs)], Some num, true)
  = (ms ++ [(num, cs ++ [c])], Some num, true).
Proof.
  intros [cn rs] ms num cs Hn Hd Hne Hwf. cbn [fst snd] in *. unfold rows_of_chain. cbn [fst snd].
  assert (Hstart : fold_left add_row (flat_map (rows_of_residue num cn) rs) (ms ++ [(num, cs)], Some num, true)
                 = fold_left add_row (flat_map (rows_of_residue num cn) rs) (ms ++ [(num, cs ++ [(cn, [])])], Some num, true)).
  { destruct rs as [|[r atoms] t]; [congruence|]. destruct Hwf as (Ha & _ & _). cbn [snd] in Ha.
    destruct atoms as [|a l]; [congruence|].
    cbn [flat_map rows_of_residue fst snd map app fold_left].
    rewrite add_row_new_chain by assumption. reflexivity. }
  rewrite Hstart. rewrite fold_residues; [reflexivity|assumption| |assumption]. intros x y [].
Qed.

Lemma fold_chains : forall cs2 ms num cs1, ~ In num (map fst ms) -> wf_cs (last_name cs1) cs2 ->
  fold_left add_row (flat_map (rows_of_chain num) cs2) (ms ++ [(num, cs1)], Some num, true)
  = (ms ++ [(num, cs1 ++ cs2)], Some num, true).
Proof.
  induction cs2 as [|c t IH]; intros ms num cs1 Hn Hwf; [rewrite app_nil_r; reflexivity|].
  cbn [flat_map]. rewrite fold_left_app. destruct Hwf as (Hd & Hne & Hrs & Hwf).
  rewrite fold_chain by assumption. rewrite IH; [rewrite <- app_assoc; reflexivity|assumption|].
  rewrite last_name_app. exact Hwf.
Qed.

(* a whole new model *)
Lemma fold_model : forall m ms cur ok, ~ In (fst m) (map fst ms) ->
  match cur with Some n => In n (map fst ms) | None => True end -> wf_model m ->
  fold_left add_row (rows_of_model m) (ms, cur, ok) = (ms ++ [m], Some (fst m), true).
Proof.
  intros [num cs] ms cur ok Hn Hc [Hne Hwf]. cbn [fst snd] in *. unfold rows_of_model. cbn [fst snd].
  destruct cs as [|[cn rs] t]; [congruence|]. destruct Hwf as (_ & Hrne & Hrs & Hwf). cbn [fst snd] in *.
  cbn [flat_map]. rewrite fold_left_app.
  assert (Hstart : fold_left add_row (rows_of_chain num (cn, rs)) (ms, cur, ok)
                 = fold_left add_row (flat_map (rows_of_residue num cn) rs)
                     (ms ++ [(num, [] ++ [(cn, [])])], Some num, true)).
  { unfold rows_of_chain. cbn [fst snd]. destruct rs as [|[r atoms] rt]; [congruence|].
    destruct Hrs as (Ha & _ & _). cbn [snd] in Ha. destruct atoms as [|a l]; [congruence|].
    cbn [flat_map rows_of_residue fst snd map app fold_left].
    rewrite add_row_new_model by assumption. reflexivity. }
  rewrite Hstart. rewrite fold_residues; [|assumption|intros x y []|assumption].
  cbn [app]. change [(cn, rs)] with ([] ++ [(cn, rs)]).
  rewrite fold_chains; [reflexivity|assumption|]. rewrite last_name_app. exact Hwf.
Qed.

Lemma fold_models : forall todo done cur ok, NoDup (map fst (done ++ todo)) ->
  match cur with Some n => In n (map fst done) | None => True end -> Forall wf_model todo ->
  fst (fst (fold_left add_row (to_rows todo) (done, cur, ok))) = done ++ todo.
Proof.
  induction todo as [|m t IH]; intros done cur ok Hnd Hc Hwf; [cbn; rewrite app_nil_r; reflexivity|].
  unfold to_rows. cbn [flat_map]. rewrite fold_left_app. inversion Hwf; subst.
  assert (Hm : ~ In (fst m) (map fst done)).
  { rewrite map_app in Hnd. cbn [map] in Hnd. apply NoDup_remove_2 in Hnd. intro Hin. apply Hnd.
    apply in_or_app. left. exact Hin. }
  rewrite fold_model by assumption.
  change (flat_map rows_of_model t) with (to_rows t). rewrite IH.
  - rewrite <- app_assoc. reflexivity.
  - rewrite <- app_assoc. exact Hnd.
  - rewrite map_app. apply in_or_app. right. left. reflexivity.
  - assumption.
Qed.

Theorem regroup_flatten : forall s, WFs s -> of_rows (to_rows s) = s.
Proof.
  intros s [Hnd Hwf]. unfold of_rows.
  pose proof (fold_models s [] None false Hnd I Hwf) as H.
  cbn [app] in H.
  assert (Hp : forall st : rstate, fst (fst st) = s -> (let '(ms, _, _) := st in ms) = s)
    by (intros [[ms c] o] Hst; exact Hst).
  apply Hp. exact H.
Qed.

(* without the distinctness of residue ids the round trip fails: the reader merges the two residues *)
Example regroup_merges_equal_ids :
  let a := ([65], 0) in let r1 : rid := ([71;76;89], 1, 32) in let r2 : rid := ([65;76;65], 2, 32) in
  of_rows (to_rows [(1, [([65], [(r1, [a]); (r2, [a]); (r1, [a])])])]) = [(1, [([65], [(r1, [a; a]); (r2, [a])])])].
Proof. vm_compute. reflexivity. Qed.

Example regroup_example :
  let s : structure := [(1, [([65], [(([71;76;89], -5, 32), [([67;65], 0); ([67;66], 65); ([67;66], 66)]);
                                       (([71;76;89], -5, 65), [([78], 0)]); (([83;69;82], -5, 65), [([78], 0)])]);
                             ([65;98;99;100], [(([72;79;72], 10000, 32), [([79], 0)])]);
                             ([65], [(([72;79;72], 1, 32), [([79], 0)])])]);
                        (4, [([65], [(([71;76;89], -5, 32), [([67;65], 0)])])])] in
  of_rows (to_rows s) = s.
Proof. vm_compute. reflexivity. Qed.
