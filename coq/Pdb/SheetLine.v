(* The SHEET record: the line produced by the format string of src/to_pdb.cpp (regenerated into Pdb/AtomFmt_gen.v)
   read by the record handler of Pdb/Records.v (do_sheet, the model of the SHEET branch of read_pdb_from_stream). *)
From Coq Require Import Lia.
From GV Require Import Base.Str Pdb.Hy36 Pdb.Hy36Proofs Pdb.Records Pdb.AtomLine Pdb.AtomLineProofs Pdb.AtomFmt_gen Pdb.AtomFmt
                       Pdb.HelixLine.
Local Open Scope Z_scope.

(* a residue address as the writer uses it *)
Record raddr := mkRa { ra_res : str; ra_ch : str; ra_n : Z; ra_ic : Z }.
(* one end of a registration hydrogen bond: atom name + residue address *)
Record haddr := mkHa { ha_atom : str; ha_r : raddr }.

Record strand_t := mkSt { st_num : Z; st_sheet : str; st_count : Z; st_a : raddr; st_b : raddr; st_sense : Z;
                          st_hb : option (haddr * haddr) }.   (* (cur atom, prev atom) *)

Definition ra_seq (a : raddr) : str := write_seq_id (ra_n a) (ra_ic a).
Definition hb_args (o : option haddr) : list farg :=
  match o with
  | Some a => [AStr (ha_atom a); AStr (ra_res (ha_r a)); AStr (ra_ch (ha_r a)); AStr (ra_seq (ha_r a))]
  | None => [AStr []; AStr []; AStr []; AStr []]
  end.
Definition sheet_args (t : strand_t) : list farg :=
  [AInt (st_num t); AStr (st_sheet t); AInt (st_count t);
   AStr (ra_res (st_a t)); AStr (ra_ch (st_a t)); AStr (ra_seq (st_a t));
   AStr (ra_res (st_b t)); AStr (ra_ch (st_b t)); AStr (ra_seq (st_b t)); AInt (st_sense t)]
  ++ hb_args (option_map fst (st_hb t)) ++ hb_args (option_map snd (st_hb t)).

Definition sheet_line (t : strand_t) : option str :=
  match interp 100 sheet_fmt (sheet_args t) with Some l => Some (concat l) | None => None end.

Definition ra_ok (a : raddr) : Prop :=
  (tidy (ra_res a) /\ (length (ra_res a) <= 3)%nat) /\ (tidy (ra_ch a) /\ (length (ra_ch a) <= 2)%nat) /\
  -999 <= ra_n a <= 1223055 /\ ra_ic a <> 13 /\ ra_ic a <> 10.
Definition ha_ok (a : haddr) : Prop := (tidy (ha_atom a) /\ (length (ha_atom a) <= 3)%nat) /\ ra_ok (ha_r a).

Record fits_st (t : strand_t) : Prop := mkFitsSt {
  fs_num : 0 <= st_num t <= 99999;
  fs_sheet : tidy (st_sheet t) /\ (length (st_sheet t) <= 3)%nat;
  fs_count : 0 <= st_count t <= 99;
  fs_a : ra_ok (st_a t); fs_b : ra_ok (st_b t);
  fs_sense : st_sense t = -1 \/ st_sense t = 0 \/ st_sense t = 1;
  fs_hb : match st_hb t with Some (x, y) => ha_ok x /\ ha_ok y | None => True end }.

Definition raddr_addr (a : raddr) : addr := mkAddr (ra_ch a) (ra_res a) (Some (ra_n a), ra_ic a) [].
Definition haddr_addr (a : haddr) : addr := mkAddr (ra_ch (ha_r a)) (ra_res (ha_r a)) (Some (ra_n (ha_r a)), ra_ic (ha_r a)) (ha_atom a).

Definition sheet_result (s : pst) (t : strand_t) (hb2 hb1 : addr) : pst :=
  mkPst (p_ents s) (p_mod s) (p_hel s)
        (upd_sheet (st_sheet t)
           (fun sh => mkSheet (sh_name sh) (sh_strands sh ++ [mkStrand (raddr_addr (st_a t)) (raddr_addr (st_b t)) (st_sense t) hb2 hb1]))
           (p_sheets s))
        (p_conect s).

(* columns 1-40 *)
Definition sheet_head (t : strand_t) : list str :=
  [[83]; [72]; [69]; [69]; [84]; rjust 5 (print_dec (st_num t)); [32]; apply_s false 3 (Some 3%nat) (st_sheet t);
   rjust 2 (print_dec (st_count t)); [32];
   apply_s false 3 (Some 3%nat) (ra_res (st_a t)); apply_s false 2 None (ra_ch (st_a t)); apply_s false 5 None (ra_seq (st_a t)); [32];
   apply_s false 3 (Some 3%nat) (ra_res (st_b t)); apply_s false 2 None (ra_ch (st_b t)); apply_s false 5 None (ra_seq (st_b t));
   rjust 2 (print_dec (st_sense t))].

(* one hydrogen-bond end: 2 blanks, %-3s, %3.3s, %2s, %5s = 15 columns *)
Definition hb_pieces (o : option haddr) : list str :=
  match o with
  | Some a => [[32]; [32]; apply_s true 3 None (ha_atom a); apply_s false 3 (Some 3%nat) (ra_res (ha_r a));
               apply_s false 2 None (ra_ch (ha_r a)); apply_s false 5 None (ra_seq (ha_r a))]
  | None => [[32]; [32]; apply_s true 3 None []; apply_s false 3 (Some 3%nat) []; apply_s false 2 None []; apply_s false 5 None []]
  end.

Lemma sheet_line_form : forall t,
  sheet_line t = Some (concat (sheet_head t ++ hb_pieces (option_map fst (st_hb t)) ++ hb_pieces (option_map snd (st_hb t))
                               ++ [[32]; [32]; [32]; [32]; [32]; [32]; [32]; [32]; [32]; [32]])).
Proof.
  intros t. unfold sheet_line, sheet_args.
  destruct (st_hb t) as [[x y]|]; reflexivity.
Qed.

(* ---- fields ---- *)
Lemma rs_rjust : forall w s rest, tidy s -> (length s <= w)%nat -> read_string w (apply_s false w None s ++ rest) = s.
Proof.
  intros w s rest T L. unfold apply_s.
  replace w with ((w - length s) + length s + 0)%nat at 1 by lia.
  replace (repeat 32 (w - length s) ++ s) with (repeat 32 (w - length s) ++ s ++ repeat 32 0)
    by (cbn [repeat]; rewrite app_nil_r; reflexivity).
  apply read_padded. exact T.
Qed.
Lemma rs_rjust_trunc : forall w s rest, tidy s -> (length s <= w)%nat ->
  read_string w (apply_s false w (Some w) s ++ rest) = s.
Proof.
  intros w s rest T L. unfold apply_s. rewrite firstn_all2 by lia. apply (rs_rjust w s rest T L).
Qed.
Lemma rs_ljust_after_blank : forall w s rest, tidy s -> (length s <= w)%nat ->
  read_string (S w) (32 :: apply_s true w None s ++ rest) = s.
Proof.
  intros w s rest T L. unfold apply_s.
  replace (S w) with (1 + length s + (w - length s))%nat by lia.
  change (32 :: (s ++ repeat 32 (w - length s)) ++ rest) with (repeat 32 1 ++ (s ++ repeat 32 (w - length s)) ++ rest).
  replace (repeat 32 1 ++ (s ++ repeat 32 (w - length s)) ++ rest)
    with ((repeat 32 1 ++ s ++ repeat 32 (w - length s)) ++ rest) by (rewrite <- !app_assoc; reflexivity).
  apply read_padded. exact T.
Qed.
Lemma seq_field : forall n ic rest, -999 <= n <= 1223055 -> ic <> 13 -> ic <> 10 ->
  read_seq_id (apply_s false 5 None (write_seq_id n ic) ++ rest) = (Some n, ic).
Proof. intros. apply seqid_roundtrip; assumption. Qed.
Lemma seq_field_length : forall n ic, -999 <= n <= 1223055 -> length (apply_s false 5 None (write_seq_id n ic)) = 5%nat.
Proof. intros n ic H. apply (field5_seqid_length n ic H). Qed.
Lemma rjust_len : forall w s, (length s <= w)%nat -> length (rjust w s) = w.
Proof. intros w s H. unfold rjust. rewrite app_length, repeat_length. lia. Qed.
Lemma apply_r_len : forall w s, (length s <= w)%nat -> length (apply_s false w None s) = w.
Proof. intros w s H. unfold apply_s. rewrite app_length, repeat_length. lia. Qed.
Lemma apply_rt_len : forall w s, length (apply_s false w (Some w) s) = w.
Proof. intros w s. unfold apply_s. rewrite app_length, repeat_length, firstn_length. lia. Qed.
Lemma apply_l_len : forall w s, (length s <= w)%nat -> length (apply_s true w None s) = w.
Proof. intros w s H. unfold apply_s. rewrite app_length, repeat_length. lia. Qed.

Lemma skipn_app_len : forall (a b : str) k, length a = k -> skipn k (a ++ b) = b.
Proof. intros a b k H. rewrite skipn_app, skipn_all2 by lia. rewrite H, Nat.sub_diag. reflexivity. Qed.

(* reading a residue address from the three fields at relative offsets: name, chain, number *)
Lemma raddr_fields : forall a rest, ra_ok a ->
  let f := apply_s false 3 (Some 3%nat) (ra_res a) ++ apply_s false 2 None (ra_ch a) ++ apply_s false 5 None (ra_seq a) ++ rest in
  read_string 3 f = ra_res a /\ read_string 2 (skipn 3 f) = ra_ch a /\ read_seq_id (skipn 5 f) = (Some (ra_n a), ra_ic a).
Proof.
  intros a rest [[Tr Lr] [[Tc Lc] [Hn [I1 I2]]]] f. unfold f.
  assert (L3 : length (apply_s false 3 (Some 3%nat) (ra_res a)) = 3%nat) by apply apply_rt_len.
  assert (L2 : length (apply_s false 2 None (ra_ch a)) = 2%nat) by (apply apply_r_len; exact Lc).
  split; [apply rs_rjust_trunc; assumption|]. split.
  - rewrite (skipn_app_len _ _ 3 L3). apply rs_rjust; assumption.
  - change 5%nat with (3 + 2)%nat. rewrite <- (skipn_skipn_ Z 3 2).
    rewrite (skipn_app_len _ _ 3 L3), (skipn_app_len _ _ 2 L2).
    unfold ra_seq. apply seq_field; assumption.
Qed.

Lemma res_addr_at : forall buf k a rest, ra_ok a ->
  Records.at_ k buf = apply_s false 3 (Some 3%nat) (ra_res a) ++ apply_s false 2 None (ra_ch a) ++ apply_s false 5 None (ra_seq a) ++ rest ->
  res_addr (k + 3) (k + 5) k buf = raddr_addr a.
Proof.
  intros buf k a rest Ok E. destruct (raddr_fields a rest Ok) as [F1 [F2 F3]].
  unfold res_addr, rs, raddr_addr. unfold Records.at_ in *.
  rewrite <- (skipn_skipn_ Z k 3), <- (skipn_skipn_ Z k 5), E, F1, F2, F3. reflexivity.
Qed.

Lemma sense_field : forall v rest, v = -1 \/ v = 0 \/ v = 1 -> read_int 2 (rjust 2 (print_dec v) ++ rest) = v.
Proof. intros v rest [ -> | [ -> | -> ] ]; reflexivity. Qed.

Lemma sheet_head_length : forall t, fits_st t -> length (concat (sheet_head t)) = 40%nat.
Proof.
  intros t F. destruct F.
  destruct (print_dec_nonneg (st_num t) 5) as (_ & _ & LN & _); [lia|cbn; lia|].
  destruct (print_dec_nonneg (st_count t) 2) as (_ & _ & LC & _); [lia|cbn; lia|].
  destruct fs_a0 as [[_ La1] [[_ La2] [Na _]]]. destruct fs_b0 as [[_ Lb1] [[_ Lb2] [Nb _]]].
  unfold sheet_head. cbn [concat]. rewrite !app_length. cbn [length].
  rewrite !apply_rt_len, !(apply_r_len 2) by assumption.
  unfold ra_seq. rewrite !seq_field_length by assumption.
  rewrite !rjust_len; try lia.
  destruct fs_sense0 as [ -> | [ -> | -> ] ]; cbn; lia.
Qed.

(* whatever follows column 40 and whatever the line length (>= 40): sheet id, both residue addresses and the sense come
   from columns 1-40 alone; the hydrogen-bond atoms are looked at only when the line is longer than 67 *)
Theorem sheet_head_read : forall t, fits_st t -> forall s rest len, (40 <= len)%nat ->
  do_sheet s (concat (sheet_head t) ++ rest) len =
  sheet_result s t
    (if (67 <? len)%nat then atom_addr 41 48 50 45 (concat (sheet_head t) ++ rest) else no_addr)
    (if (67 <? len)%nat then atom_addr 56 63 65 60 (concat (sheet_head t) ++ rest) else no_addr).
Proof.
  intros t F s rest len Hlen. pose proof (sheet_head_length t F) as L40. destruct F.
  destruct (print_dec_nonneg (st_num t) 5) as (_ & _ & LN & _); [lia|cbn; lia|].
  destruct (print_dec_nonneg (st_count t) 2) as (_ & _ & LC & _); [lia|cbn; lia|].
  destruct fs_sheet0 as [Tsh Lsh].
  pose proof fs_a0 as Oka. pose proof fs_b0 as Okb.
  destruct fs_a0 as [[_ La1] [[_ La2] [Na _]]]. destruct fs_b0 as [[_ Lb1] [[_ Lb2] [Nb _]]].
  unfold sheet_head in *.
  set (NUM := rjust 5 (print_dec (st_num t))) in *. set (SH := apply_s false 3 (Some 3%nat) (st_sheet t)) in *.
  set (CNT := rjust 2 (print_dec (st_count t))) in *.
  set (R1 := apply_s false 3 (Some 3%nat) (ra_res (st_a t))) in *. set (C1 := apply_s false 2 None (ra_ch (st_a t))) in *.
  set (Q1 := apply_s false 5 None (ra_seq (st_a t))) in *.
  set (R2 := apply_s false 3 (Some 3%nat) (ra_res (st_b t))) in *. set (C2 := apply_s false 2 None (ra_ch (st_b t))) in *.
  set (Q2 := apply_s false 5 None (ra_seq (st_b t))) in *.
  set (SN := rjust 2 (print_dec (st_sense t))) in *.
  assert (LNUM : length NUM = 5%nat) by (apply rjust_len; lia).
  assert (LSH : length SH = 3%nat) by apply apply_rt_len.
  assert (LCNT : length CNT = 2%nat) by (apply rjust_len; lia).
  assert (LR1 : length R1 = 3%nat) by apply apply_rt_len. assert (LC1 : length C1 = 2%nat) by (apply apply_r_len; assumption).
  assert (LQ1 : length Q1 = 5%nat) by (apply seq_field_length; assumption).
  assert (LR2 : length R2 = 3%nat) by apply apply_rt_len. assert (LC2 : length C2 = 2%nat) by (apply apply_r_len; assumption).
  assert (LQ2 : length Q2 = 5%nat) by (apply seq_field_length; assumption).
  set (all := [[83]; [72]; [69]; [69]; [84]; NUM; [32]; SH; CNT; [32]; R1; C1; Q1; [32]; R2; C2; Q2; SN]) in *.
  set (buf := concat all ++ rest).
  assert (A : forall (pre post : list str) k, all = pre ++ post -> length (concat pre) = k ->
              Records.at_ k buf = concat post ++ rest).
  { intros pre post k E0 Hk. unfold Records.at_, buf. rewrite E0, <- Hk. apply skipn_pieces. }
  assert (A11 : Records.at_ 11 buf = concat [SH; CNT; [32]; R1; C1; Q1; [32]; R2; C2; Q2; SN] ++ rest).
  { apply (A [[83]; [72]; [69]; [69]; [84]; NUM; [32]]); [reflexivity|]. piece_len. lia. }
  assert (A17 : Records.at_ 17 buf = concat [R1; C1; Q1; [32]; R2; C2; Q2; SN] ++ rest).
  { apply (A [[83]; [72]; [69]; [69]; [84]; NUM; [32]; SH; CNT; [32]]); [reflexivity|]. piece_len. lia. }
  assert (A28 : Records.at_ 28 buf = concat [R2; C2; Q2; SN] ++ rest).
  { apply (A [[83]; [72]; [69]; [69]; [84]; NUM; [32]; SH; CNT; [32]; R1; C1; Q1; [32]]); [reflexivity|]. piece_len. lia. }
  assert (A38 : Records.at_ 38 buf = concat [SN] ++ rest).
  { apply (A [[83]; [72]; [69]; [69]; [84]; NUM; [32]; SH; CNT; [32]; R1; C1; Q1; [32]; R2; C2; Q2]); [reflexivity|]. piece_len. lia. }
  assert (Hid : rs 3 11 buf = st_sheet t).
  { unfold rs. rewrite A11. cbn [concat]. rewrite <- app_assoc. apply rs_rjust_trunc; assumption. }
  assert (Ha : res_addr 20 22 17 buf = raddr_addr (st_a t)).
  { apply (res_addr_at buf 17 (st_a t) (concat [[32]; R2; C2; Q2; SN] ++ rest) Oka).
    rewrite A17. cbn [concat]. rewrite <- !app_assoc. reflexivity. }
  assert (Hb : res_addr 31 33 28 buf = raddr_addr (st_b t)).
  { apply (res_addr_at buf 28 (st_b t) (concat [SN] ++ rest) Okb).
    rewrite A28. cbn [concat]. rewrite <- !app_assoc. reflexivity. }
  assert (Hs : ri 2 38 buf = st_sense t).
  { unfold ri. rewrite A38. cbn [concat]. rewrite app_nil_r. apply sense_field. exact fs_sense0. }
  unfold do_sheet. replace (len <? 40)%nat with false by (symmetry; apply Nat.ltb_ge; lia). cbv iota zeta.
  fold buf. rewrite Hid, Ha, Hb, Hs. reflexivity.
Qed.

Lemma skipn_app_len_more : forall (a b : str) k m, length a = k -> skipn (k + m) (a ++ b) = skipn m b.
Proof. intros a b k m H. rewrite <- (skipn_skipn_ Z k m), (skipn_app_len a b k H). reflexivity. Qed.

Lemma atom_addr_at : forall buf k a rest, ha_ok a ->
  Records.at_ k buf = 32 :: apply_s true 3 None (ha_atom a) ++
                      apply_s false 3 (Some 3%nat) (ra_res (ha_r a)) ++ apply_s false 2 None (ra_ch (ha_r a)) ++
                      apply_s false 5 None (ra_seq (ha_r a)) ++ rest ->
  atom_addr k (k + 7) (k + 9) (k + 4) buf = haddr_addr a.
Proof.
  intros buf k a rest [[Ta La] Ok] E. destruct (raddr_fields (ha_r a) rest Ok) as [F1 [F2 F3]].
  assert (L3 : length (apply_s true 3 None (ha_atom a)) = 3%nat) by (apply apply_l_len; exact La).
  set (A := apply_s true 3 None (ha_atom a)) in *.
  set (Fl := apply_s false 3 (Some 3%nat) (ra_res (ha_r a)) ++ apply_s false 2 None (ra_ch (ha_r a)) ++
             apply_s false 5 None (ra_seq (ha_r a)) ++ rest) in *.
  assert (E4 : skipn 4 (32 :: A ++ Fl) = Fl).
  { change (skipn 4 (32 :: A ++ Fl)) with (skipn 3 (A ++ Fl)). apply (skipn_app_len _ _ 3 L3). }
  assert (E7 : skipn 7 (32 :: A ++ Fl) = skipn 3 Fl).
  { change (skipn 7 (32 :: A ++ Fl)) with (skipn (3 + 3) (A ++ Fl)). apply (skipn_app_len_more _ _ 3 3 L3). }
  assert (E9 : skipn 9 (32 :: A ++ Fl) = skipn 5 Fl).
  { change (skipn 9 (32 :: A ++ Fl)) with (skipn (3 + 5) (A ++ Fl)). apply (skipn_app_len_more _ _ 3 5 L3). }
  unfold atom_addr, rs, haddr_addr. unfold Records.at_ in *.
  rewrite <- (skipn_skipn_ Z k 7), <- (skipn_skipn_ Z k 9), <- (skipn_skipn_ Z k 4), E, E4, E7, E9, F1, F2, F3.
  unfold A. rewrite (rs_ljust_after_blank 3 (ha_atom a) _ Ta La). reflexivity.
Qed.

Definition hb_addrs (t : strand_t) : addr * addr :=
  match st_hb t with Some (x, y) => (haddr_addr x, haddr_addr y) | None => (no_addr, no_addr) end.

(* a hydrogen-bond end that is not given is 15 blank columns, read as "no address" *)
Lemma blank_atom_addr : forall buf k rest, Records.at_ k buf = repeat 32 14 ++ rest ->
  atom_addr k (k + 7) (k + 9) (k + 4) buf = no_addr.
Proof.
  intros buf k rest E. unfold atom_addr, rs. unfold Records.at_ in *.
  rewrite <- (skipn_skipn_ Z k 7), <- (skipn_skipn_ Z k 9), <- (skipn_skipn_ Z k 4), E. reflexivity.
Qed.

Theorem sheet_roundtrip : forall t, fits_st t ->
  exists line, sheet_line t = Some line /\ length line = 80%nat /\
  forall s rest, do_sheet s (line ++ rest) 81 = sheet_result s t (fst (hb_addrs t)) (snd (hb_addrs t)).
Proof.
  intros t F. rewrite sheet_line_form. eexists. split; [reflexivity|].
  pose proof (sheet_head_length t F) as L40.
  rewrite !concat_app.
  set (H := concat (sheet_head t)) in *.
  assert (Lhb : forall o, match o with Some a => ha_ok a | None => True end -> length (concat (hb_pieces o)) = 15%nat).
  { intros [a|] Ok; cbn [hb_pieces concat]; rewrite !app_length; cbn [length].
    - destruct Ok as [[_ La] [[_ L1] [[_ L2] [Hn _]]]].
      rewrite apply_l_len, apply_rt_len, (apply_r_len 2) by assumption. unfold ra_seq. rewrite seq_field_length by assumption. lia.
    - reflexivity. }
  assert (Ok12 : match option_map fst (st_hb t) with Some a => ha_ok a | None => True end /\
                 match option_map snd (st_hb t) with Some a => ha_ok a | None => True end).
  { destruct F. destruct (st_hb t) as [[x y]|]; cbn; [exact fs_hb0|split; exact I]. }
  destruct Ok12 as [Ok1 Ok2].
  split.
  { rewrite !app_length, L40, (Lhb _ Ok1), (Lhb _ Ok2). reflexivity. }
  intros s rest. rewrite <- !app_assoc.
  rewrite (sheet_head_read t F s _ 81) by lia. change (67 <? 81)%nat with true. cbv iota.
  fold H.
  set (TL := concat [[32]; [32]; [32]; [32]; [32]; [32]; [32]; [32]; [32]; [32]] ++ rest).
  set (T1 := concat (hb_pieces (option_map fst (st_hb t)))) in *.
  set (T2 := concat (hb_pieces (option_map snd (st_hb t)))) in *.
  assert (A41 : Records.at_ 41 (H ++ T1 ++ T2 ++ TL) = skipn 1 (T1 ++ T2 ++ TL)).
  { unfold Records.at_. change 41%nat with (40 + 1)%nat. apply (skipn_app_len_more _ _ 40 1 L40). }
  assert (A56 : Records.at_ 56 (H ++ T1 ++ T2 ++ TL) = skipn 1 (T2 ++ TL)).
  { unfold Records.at_. change 56%nat with (40 + (15 + 1))%nat. rewrite (skipn_app_len_more _ _ 40 (15 + 1) L40).
    apply (skipn_app_len_more _ _ 15 1 (Lhb _ Ok1)). }
  assert (E2 : atom_addr 41 48 50 45 (H ++ T1 ++ T2 ++ TL) = fst (hb_addrs t)).
  { unfold hb_addrs. subst T1. destruct (st_hb t) as [[x y]|]; cbn [option_map fst snd hb_pieces] in *.
    - apply (atom_addr_at _ 41 x (T2 ++ TL) Ok1). rewrite A41. cbn [concat]. rewrite app_nil_r, <- !app_assoc. reflexivity.
    - apply (blank_atom_addr _ 41 (T2 ++ TL)). rewrite A41. reflexivity. }
  assert (E1 : atom_addr 56 63 65 60 (H ++ T1 ++ T2 ++ TL) = snd (hb_addrs t)).
  { unfold hb_addrs. subst T2. destruct (st_hb t) as [[x y]|]; cbn [option_map fst snd hb_pieces] in *.
    - apply (atom_addr_at _ 56 y TL Ok2). rewrite A56. cbn [concat]. rewrite app_nil_r, <- !app_assoc. reflexivity.
    - apply (blank_atom_addr _ 56 TL). rewrite A56. reflexivity. }
  rewrite E2, E1. reflexivity.
Qed.

(* PADDING for the SHEET record as gemmi writes it, strand without registration atoms: the line may end anywhere from
   column 40 to column 67 (all trailing blanks stripped, or some of them, LF / CR LF / NUL next): same strand *)
Theorem sheet_padding_no_hbond : forall t, fits_st t -> st_hb t = None ->
  forall s rest len, (40 <= len <= 67)%nat ->
  do_sheet s (concat (sheet_head t) ++ rest) len = sheet_result s t no_addr no_addr.
Proof.
  intros t F N s rest len Hlen. rewrite (sheet_head_read t F s rest len) by lia.
  replace (67 <? len)%nat with false by (symmetry; apply Nat.ltb_ge; lia). reflexivity.
Qed.

(* non-vacuity: strand 2 of sheet "A" (3 strands), TYR A 10 - GLY A 15A, antiparallel, bonded O of LEU A 12 to N of VAL A 3 *)
Definition ex_strand : strand_t :=
  mkSt 2 [65] 3 (mkRa [84;89;82] [65] 10 32) (mkRa [71;76;89] [65] 15 65) (-1)
       (Some (mkHa [79] (mkRa [76;69;85] [65] 12 32), mkHa [78] (mkRa [86;65;76] [65] 3 32))).
Lemma ex_strand_fits : fits_st ex_strand /\
  sheet_line ex_strand = Some
    [83;72;69;69;84;32;32;32;32;50;32;32;32;65;32;51;32;84;89;82;32;65;32;32;49;48;32;32;71;76;89;32;65;32;32;49;53;65;45;49;
     32;32;79;32;32;76;69;85;32;65;32;32;49;50;32;32;32;78;32;32;86;65;76;32;65;32;32;32;51;32;32;32;32;32;32;32;32;32;32;32].
Proof.
  split; [|vm_compute; reflexivity].
  assert (T : forall s, Forall (fun c => is_term c = false) s -> s <> [] -> is_cspace (hd 0 s) = false ->
              is_cspace (last s 0) = false -> tidy s).
  { intros s N _ H1 H2. split; [exact N|right; split; assumption]. }
  assert (R : forall r c n ic, tidy r -> (length r <= 3)%nat -> tidy c -> (length c <= 2)%nat -> -999 <= n <= 1223055 ->
              ic <> 13 -> ic <> 10 -> ra_ok (mkRa r c n ic)).
  { intros r c n ic H1 H2 H3 H4 H5 H6 H7. unfold ra_ok. cbn [ra_res ra_ch ra_n ra_ic].
    split; [split; assumption|split; [split; assumption|split; [exact H5|split; assumption]]]. }
  constructor; cbn [ex_strand st_num st_sheet st_count st_a st_b st_sense st_hb]; try lia.
  - split; [apply T; [repeat constructor|discriminate|reflexivity|reflexivity]|cbn; lia].
  - apply R; try (cbn; lia); apply T; try (repeat constructor); try discriminate; reflexivity.
  - apply R; try (cbn; lia); apply T; try (repeat constructor); try discriminate; reflexivity.
  - split; (split; [split; [apply T; [repeat constructor|discriminate|reflexivity|reflexivity]|cbn; lia]|
            apply R; try (cbn; lia); apply T; try (repeat constructor); try discriminate; reflexivity]).
Qed.
