(* The CRYST1 record: the line that the format string of src/to_pdb.cpp (regenerated into Pdb/AtomFmt_gen.v) produces
   from the six numeric texts, the space-group name and Z, and what read_pdb_from_stream reads back from it. *)
From Coq Require Import Lia.
From GV Require Import Base.Str Pdb.Hy36 Pdb.AtomLine Pdb.AtomLineProofs Pdb.AtomFmt_gen Pdb.AtomFmt.
Local Open Scope Z_scope.

Definition P1 : str := [80; 32; 49].
Definition cryst_args (n : list str) (hm z : str) : list farg :=
  map ANum n ++ [AStr (match hm with [] => P1 | _ => hm end); AStr z].
Definition cryst_line (n : list str) (hm z : str) : option str :=
  match interp 100 cryst1_fmt (cryst_args n hm z) with Some l => Some (concat l) | None => None end.

(* the reader: cell texts, space-group name (if len > 56), Z (if len > 67) *)
Definition read_cryst (buf : str) (len : nat) : list str * str * str :=
  ([firstn 9 (at_ 6 buf); firstn 9 (at_ 15 buf); firstn 9 (at_ 24 buf);
    firstn 7 (at_ 33 buf); firstn 7 (at_ 40 buf); firstn 7 (at_ 47 buf)],
   (if (56 <? len)%nat then read_string 11 (at_ 55 buf) else []),
   (if (67 <? len)%nat then read_string 4 (at_ 66 buf) else [])).

Theorem cryst1_roundtrip : forall a b c al be ga hm z rest,
  length a = 9%nat -> length b = 9%nat -> length c = 9%nat ->
  length al = 7%nat -> length be = 7%nat -> length ga = 7%nat ->
  tidy hm -> (length hm <= 11)%nat -> tidy z -> (length z <= 4)%nat ->
  exists line, cryst_line [a; b; c; al; be; ga] hm z = Some line /\ length line = 80%nat /\
    read_cryst (line ++ rest) 81 = ([a; b; c; al; be; ga], match hm with [] => P1 | _ => hm end, z).
Proof.
  intros a b c al be ga hm z rest La Lb Lc Lal Lbe Lga Th Lh Tz Lz.
  set (hm' := match hm with [] => P1 | _ => hm end).
  assert (Th' : tidy hm' /\ (length hm' <= 11)%nat).
  { unfold hm'. destruct hm as [|x t]; [|split; assumption].
    split; [|cbn; lia]. split; [repeat constructor|right; split; reflexivity]. }
  destruct Th' as [Th' Lh'].
  assert (E : interp 100 cryst1_fmt (cryst_args [a; b; c; al; be; ga] hm z) =
    Some [[67]; [82]; [89]; [83]; [84]; [49]; a; b; c; al; be; ga; [32]; apply_s true 11 None hm'; apply_s false 4 None z;
          [32]; [32]; [32]; [32]; [32]; [32]; [32]; [32]; [32]; [32]]) by reflexivity.
  unfold cryst_line. rewrite E. eexists. split; [reflexivity|].
  set (P13 := apply_s true 11 None hm'). set (P14 := apply_s false 4 None z).
  assert (L13 : length P13 = 11%nat) by (unfold P13, apply_s; rewrite app_length, repeat_length; lia).
  assert (L14 : length P14 = 4%nat) by (unfold P14, apply_s; rewrite app_length, repeat_length; lia).
  set (all := [[67]; [82]; [89]; [83]; [84]; [49]; a; b; c; al; be; ga; [32]; P13; P14;
               [32]; [32]; [32]; [32]; [32]; [32]; [32]; [32]; [32]; [32]]).
  split.
  { unfold all. cbn [concat]. rewrite !app_length. cbn [length]. lia. }
  assert (A : forall (pre post : list str) k, all = pre ++ post -> length (concat pre) = k ->
              at_ k (concat all ++ rest) = concat post ++ rest).
  { intros pre post k E0 Hk. unfold at_. rewrite E0, <- Hk. apply skipn_pieces. }
  assert (A6 : at_ 6 (concat all ++ rest) = concat [a; b; c; al; be; ga; [32]; P13; P14; [32]; [32]; [32]; [32]; [32]; [32]; [32]; [32]; [32]; [32]] ++ rest).
  { apply (A [[67]; [82]; [89]; [83]; [84]; [49]]); reflexivity. }
  assert (A15 : at_ 15 (concat all ++ rest) = concat [b; c; al; be; ga; [32]; P13; P14; [32]; [32]; [32]; [32]; [32]; [32]; [32]; [32]; [32]; [32]] ++ rest).
  { apply (A [[67]; [82]; [89]; [83]; [84]; [49]; a]); [reflexivity|]. piece_len. lia. }
  assert (A24 : at_ 24 (concat all ++ rest) = concat [c; al; be; ga; [32]; P13; P14; [32]; [32]; [32]; [32]; [32]; [32]; [32]; [32]; [32]; [32]] ++ rest).
  { apply (A [[67]; [82]; [89]; [83]; [84]; [49]; a; b]); [reflexivity|]. piece_len. lia. }
  assert (A33 : at_ 33 (concat all ++ rest) = concat [al; be; ga; [32]; P13; P14; [32]; [32]; [32]; [32]; [32]; [32]; [32]; [32]; [32]; [32]] ++ rest).
  { apply (A [[67]; [82]; [89]; [83]; [84]; [49]; a; b; c]); [reflexivity|]. piece_len. lia. }
  assert (A40 : at_ 40 (concat all ++ rest) = concat [be; ga; [32]; P13; P14; [32]; [32]; [32]; [32]; [32]; [32]; [32]; [32]; [32]; [32]] ++ rest).
  { apply (A [[67]; [82]; [89]; [83]; [84]; [49]; a; b; c; al]); [reflexivity|]. piece_len. lia. }
  assert (A47 : at_ 47 (concat all ++ rest) = concat [ga; [32]; P13; P14; [32]; [32]; [32]; [32]; [32]; [32]; [32]; [32]; [32]; [32]] ++ rest).
  { apply (A [[67]; [82]; [89]; [83]; [84]; [49]; a; b; c; al; be]); [reflexivity|]. piece_len. lia. }
  assert (A55 : at_ 55 (concat all ++ rest) = concat [P13; P14; [32]; [32]; [32]; [32]; [32]; [32]; [32]; [32]; [32]; [32]] ++ rest).
  { apply (A [[67]; [82]; [89]; [83]; [84]; [49]; a; b; c; al; be; ga; [32]]); [reflexivity|]. piece_len. lia. }
  assert (A66 : at_ 66 (concat all ++ rest) = concat [P14; [32]; [32]; [32]; [32]; [32]; [32]; [32]; [32]; [32]; [32]] ++ rest).
  { apply (A [[67]; [82]; [89]; [83]; [84]; [49]; a; b; c; al; be; ga; [32]; P13]); [reflexivity|]. piece_len. lia. }
  unfold read_cryst. rewrite A6, A15, A24, A33, A40, A47, A55, A66.
  change (56 <? 81)%nat with true. change (67 <? 81)%nat with true. cbv iota.
  assert (F : forall (p : str) (n : nat) (l : list str), length p = n -> firstn n (concat (p :: l) ++ rest) = p).
  { intros p n l Hp. cbn [concat]. rewrite <- app_assoc, firstn_app, <- Hp, firstn_all, Nat.sub_diag. cbn [firstn]. apply app_nil_r. }
  rewrite (F a 9%nat), (F b 9%nat), (F c 9%nat), (F al 7%nat), (F be 7%nat), (F ga 7%nat) by assumption.
  f_equal; [f_equal|].
  - cbn [concat]. rewrite <- app_assoc. unfold P13, apply_s.
    replace 11%nat with (0 + length hm' + (11 - length hm'))%nat at 1 by lia.
    change (hm' ++ repeat 32 (11 - length hm')) with (repeat 32 0 ++ hm' ++ repeat 32 (11 - length hm')).
    apply read_padded. exact Th'.
  - cbn [concat]. rewrite <- app_assoc. unfold P14, apply_s.
    replace 4%nat with ((4 - length z) + length z + 0)%nat at 1 by lia.
    replace (repeat 32 (4 - length z) ++ z) with (repeat 32 (4 - length z) ++ z ++ repeat 32 0)
      by (cbn [repeat]; rewrite app_nil_r; reflexivity).
    apply read_padded. exact Tz.
Qed.
