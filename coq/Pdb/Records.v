(* The PDB reader's line buffer as state, and the records read from it at fixed columns.
   include/gemmi/input.hpp  MemoryStream::gets/getc, AnyStream::copy_line
   src/pdb.cpp              read_pdb_from_stream: `char line[122]`, the blanking of the buffer tail after each
                            copy_line (repaired code), and the handlers of SEQRES, DBREF/DBREF1/DBREF2, MODRES, HELIX,
                            SHEET, CONECT, END (other record types do not touch the modelled part of the Structure).
   A buffer is a list of 122 byte codes; `len` is what copy_line returned (strlen of the buffer). *)
From GV Require Import Base.Str Pdb.Hy36.
Local Open Scope Z_scope.

Definition BUF : nat := 122.
Definition zero_buf : str := repeat 0 BUF.

(* MemoryStream::gets: at most maxn bytes, up to and including the first '\n' *)
Fixpoint take_line (maxn : nat) (d : str) : str * str :=
  match maxn, d with
  | O, _ => ([], d)
  | _, [] => ([], [])
  | S m, c :: t => if c =? 10 then ([c], t) else let '(l, r) := take_line m t in (c :: l, r)
  end.

Fixpoint strlen (s : str) : nat :=
  match s with
  | [] => O
  | c :: t => if c =? 0 then O else S (strlen t)
  end.

(* memcpy(line, cur, n); line[n] = 0: the bytes behind stay as they were *)
Definition overwrite (buf l : str) : str := l ++ skipn (length l) buf.

(* for (int c = getc(); c > 0 && c != '\n'; c = getc()) continue;   getc returns a (signed) char or EOF *)
Fixpoint discard (d : str) : str :=
  match d with
  | [] => []
  | c :: t => if (c =? 0) || (128 <=? c) || (c =? 10) then t else discard t
  end.

(* AnyStream::copy_line(line, size) on a MemoryStream holding d: new buffer, returned length, rest of the stream.
   None = gets returned nullptr (end of data). *)
Definition copy_line (buf : str) (size : nat) (d : str) : option (str * nat * str) :=
  match d with
  | [] => None
  | _ => let '(l, r) := take_line (pred size) d in
         let buf' := overwrite buf (l ++ [0]) in
         let len := strlen buf' in
         let r' := if (0 <? len)%nat && negb (nth (pred len) buf' 0 =? 10) then discard r else r in
         Some (buf', len, r')
  end.

(* std::memset(line + len + 1, ' ', sizeof(line) - 2 - len): bytes len+1 .. 120 *)
Definition pad (buf : str) (len : nat) : str :=
  firstn (S len) buf ++ repeat 32 (120 - len) ++ skipn 121 buf.

(* one turn of `while (size_t len = copy_line(line, max_line_length+1)) { memset...` ; None = loop ends *)
Definition next_line (buf : str) (size : nat) (d : str) : option (str * nat * str) :=
  match copy_line buf size d with
  | None => None
  | Some (b, len, r) => if (len =? 0)%nat then None else Some (pad b len, len, r)
  end.

(* ---------------------------------------------------------------- parsed data *)

Definition seqid : Type := option Z * Z.
Definition no_seqid : seqid := (None, 32).

Record addr := mkAddr { a_chain : str; a_res : str; a_seq : seqid; a_atom : str }.
Definition no_addr := mkAddr [] [] no_seqid [].

Record dbref := mkDb { db_name : str; db_acc : str; db_id : str;
                       db_sb : seqid; db_se : seqid; db_b : seqid; db_e : seqid }.
Definition no_dbref := mkDb [] [] [] no_seqid no_seqid no_seqid no_seqid.

Record entity := mkEnt { e_name : str; e_seq : list str; e_db : list dbref }.
Record modres := mkMod { m_chain : str; m_res : str; m_seq : seqid; m_parent : str; m_modid : str; m_details : str }.
Record helix := mkHelix { h_start : addr; h_end : addr; h_class : Z; h_length : Z }.
Record strand := mkStrand { s_start : addr; s_end : addr; s_sense : Z; s_hb2 : addr; s_hb1 : addr }.
Record sheet := mkSheet { sh_name : str; sh_strands : list strand }.

Record pst := mkPst { p_ents : list entity; p_mod : list modres; p_hel : list helix; p_sheets : list sheet;
                      p_conect : list (Z * list Z) }.
Definition empty_pst := mkPst [] [] [] [] [].

(* ---------------------------------------------------------------- field access *)

Definition at_ (k : nat) (buf : str) : str := skipn k buf.
Definition rs (w k : nat) (buf : str) : str := read_string w (at_ k buf).
Definition ri (w k : nat) (buf : str) : Z := read_int w (at_ k buf).
Definition ch (k : nat) (buf : str) : Z := cur (at_ k buf).

(* read_res_id(seq_id, name) at offsets *)
Definition res_addr (chain_k seq_k name_k : nat) (buf : str) : addr :=
  mkAddr (rs 2 chain_k buf) (rs 3 name_k buf) (read_seq_id (at_ seq_k buf)) [].
Definition atom_addr (atom_k chain_k seq_k name_k : nat) (buf : str) : addr :=
  mkAddr (rs 2 chain_k buf) (rs 3 name_k buf) (read_seq_id (at_ seq_k buf)) (rs 4 atom_k buf).

(* ialpha4_id(line) for bytes below 128 *)
Definition rec4 (buf : str) : list Z := map (fun c => Z.land c 223) (firstn 4 buf).
Definition is_rec4 (buf : str) (name : list Z) : bool := str_eqb (rec4 buf) name.
(* is_record_type3 *)
Definition is_rec3 (buf : str) (name : list Z) : bool :=
  str_eqb (firstn 3 (rec4 buf)) name && (Z.land (ch 3 buf) 208 =? 0).

(* impl::find_or_add on a vector, by name *)
Fixpoint upd_entity (name : str) (f : entity -> entity) (l : list entity) : list entity :=
  match l with
  | [] => [f (mkEnt name [] [])]
  | e :: t => if str_eqb (e_name e) name then f e :: t else e :: upd_entity name f t
  end.
Fixpoint find_entity (name : str) (l : list entity) : option entity :=
  match l with
  | [] => None
  | e :: t => if str_eqb (e_name e) name then Some e else find_entity name t
  end.
Fixpoint upd_sheet (name : str) (f : sheet -> sheet) (l : list sheet) : list sheet :=
  match l with
  | [] => [f (mkSheet name [])]
  | e :: t => if str_eqb (sh_name e) name then f e :: t else e :: upd_sheet name f t
  end.
(* std::map<int, vector<int>>::operator[] then push_back's; kept sorted by key *)
Fixpoint upd_conect (key : Z) (vals : list Z) (l : list (Z * list Z)) : list (Z * list Z) :=
  match l with
  | [] => [(key, vals)]
  | (k, v) :: t => if k =? key then (k, v ++ vals) :: t
                   else if key <? k then (key, vals) :: l
                   else (k, v) :: upd_conect key vals t
  end.

Definition nonempty (s : str) : bool := match s with [] => false | _ => true end.

(* ---------------------------------------------------------------- record handlers *)

Definition seqres_names (buf : str) : list str :=
  filter nonempty (map (fun i => rs 3 (19 + 4 * i) buf) (seq 0 13)).

Definition do_seqres (s : pst) (buf : str) : pst :=
  let chain := rs 2 10 buf in
  mkPst (upd_entity chain (fun e => mkEnt (e_name e) (e_seq e ++ seqres_names buf) (e_db e)) (p_ents s))
        (p_mod s) (p_hel s) (p_sheets s) (p_conect s).

Definition icode_col (k : nat) (buf : str) (default : Z) : Z :=
  let c := ch k buf in if negb (is_cspace c) && negb (c =? 0) then c else default.

Definition set_last {A} (l : list A) (f : A -> A) : list A :=
  match rev l with
  | [] => []
  | x :: r => rev r ++ [f x]
  end.

(* DBREF / DBREF1 / DBREF2; the flag is `break` (DBREF2 without DBREF1 ends the reading loop, the entity
   has already been added) *)
Definition do_dbref (s : pst) (buf : str) : pst * bool :=
  let chain := rs 2 11 buf in
  let c5 := ch 5 buf in
  let first := (c5 =? 32) || (c5 =? 49) in
  let has_db := match find_entity chain (p_ents s) with
                | Some e => match e_db e with [] => false | _ => true end
                | None => false
                end in
  let fill (d : dbref) : dbref :=
    if first then
      let d1 := mkDb (rs 6 26 buf) (db_acc d) (db_id d) (read_seq_id (at_ 14 buf)) (read_seq_id (at_ 20 buf))
                     (db_b d) (db_e d) in
      if c5 =? 32 then
        mkDb (db_name d1) (rs 8 33 buf) (rs 12 42 buf) (db_sb d1) (db_se d1)
             (Some (ri 5 55 buf), icode_col 60 buf (snd (db_b d1)))
             (Some (ri 5 62 buf), icode_col 67 buf (snd (db_e d1)))
      else mkDb (db_name d1) (db_acc d1) (rs 20 47 buf) (db_sb d1) (db_se d1) (db_b d1) (db_e d1)
    else if c5 =? 50 then
      mkDb (db_name d) (rs 22 18 buf) (db_id d) (db_sb d) (db_se d)
           (Some (ri 10 45 buf), snd (db_b d)) (Some (ri 10 57 buf), snd (db_e d))
    else d in
  let upd (e : entity) : entity :=
    let dbs := if first then e_db e ++ [no_dbref] else e_db e in
    mkEnt (e_name e) (e_seq e) (set_last dbs fill) in
  let with_ents (l : list entity) := mkPst l (p_mod s) (p_hel s) (p_sheets s) (p_conect s) in
  if negb first && negb has_db then (with_ents (upd_entity chain (fun e => e) (p_ents s)), true)
  else (with_ents (upd_entity chain upd (p_ents s)), false).

Definition do_modres (s : pst) (buf : str) (len : nat) : pst :=
  let a := res_addr 15 18 12 buf in
  let details := if (30 <=? len)%nat then rs 41 29 buf else [] in
  let modid := if (73 <=? len)%nat && (ch 70 buf =? 32) && (ch 71 buf =? 32) then rs 8 72 buf else [] in
  mkPst (p_ents s) (p_mod s ++ [mkMod (a_chain a) (a_res a) (a_seq a) (rs 3 24 buf) modid details])
        (p_hel s) (p_sheets s) (p_conect s).

Definition do_helix (s : pst) (buf : str) (len : nat) : pst :=
  if (len <? 40)%nat then s else
  let cls := ri 2 38 buf in
  let cls := if (1 <=? cls) && (cls <=? 10) then cls else 0 in
  let hlen := if (72 <? len)%nat && nonempty (rs 5 72 buf) then ri 5 72 buf else -1 in
  mkPst (p_ents s) (p_mod s) (p_hel s ++ [mkHelix (res_addr 18 21 15 buf) (res_addr 30 33 27 buf) cls hlen])
        (p_sheets s) (p_conect s).

Definition do_sheet (s : pst) (buf : str) (len : nat) : pst :=
  if (len <? 40)%nat then s else
  let hb := (67 <? len)%nat in
  let st := mkStrand (res_addr 20 22 17 buf) (res_addr 31 33 28 buf) (ri 2 38 buf)
                     (if hb then atom_addr 41 48 50 45 buf else no_addr)
                     (if hb then atom_addr 56 63 65 60 buf else no_addr) in
  mkPst (p_ents s) (p_mod s) (p_hel s)
        (upd_sheet (rs 3 11 buf) (fun sh => mkSheet (sh_name sh) (sh_strands sh ++ [st])) (p_sheets s))
        (p_conect s).

Definition do_conect (s : pst) (buf : str) (len : nat) : pst :=
  let serial := read_serial (at_ 6 buf) in
  if (11 <=? len)%nat && negb (serial =? 0) then
    let limit := Nat.min 27 (pred len) in
    let offs := filter (fun o => (o <=? limit)%nat) [11; 16; 21; 26]%nat in
    let vals := filter (fun n => negb (n =? 0)) (map (fun o => read_serial (at_ o buf)) offs) in
    mkPst (p_ents s) (p_mod s) (p_hel s) (p_sheets s) (upd_conect serial vals (p_conect s))
  else s.

(* "SEQR" etc. as upper-case byte codes *)
Definition R_SEQR := [83;69;81;82]. Definition R_DBRE := [68;66;82;69]. Definition R_MODR := [77;79;68;82].
Definition R_HELI := [72;69;76;73]. Definition R_SHEE := [83;72;69;69]. Definition R_CONE := [67;79;78;69].
Definition R_END := [69;78;68].

(* one record; the flag is true when the reading loop ends (END, or the DBREF2 `break`) *)
Definition step (s : pst) (buf : str) (len : nat) : pst * bool :=
  if is_rec4 buf R_CONE then (do_conect s buf len, false)
  else if is_rec4 buf R_SEQR then (do_seqres s buf, false)
  else if is_rec4 buf R_HELI then (do_helix s buf len, false)
  else if is_rec4 buf R_SHEE then (do_sheet s buf len, false)
  else if is_rec4 buf R_MODR then (do_modres s buf len, false)
  else if is_rec4 buf R_DBRE then do_dbref s buf
  else if is_rec3 buf R_END then (s, true)
  else (s, false).

Fixpoint run (fuel : nat) (s : pst) (buf : str) (size : nat) (d : str) : pst :=
  match fuel with
  | O => s
  | S f => match next_line buf size d with
           | None => s
           | Some (b, len, r) => let '(s', stop) := step s b len in
                                 if stop then s' else run f s' b size r
           end
  end.

(* read_pdb_from_memory(text, PdbReadOptions{max_line_length}) restricted to the modelled records *)
Definition parse_records (max_line_length : Z) (text : str) : pst :=
  let m := if (max_line_length <=? 0) || (120 <? max_line_length) then 120 else max_line_length in
  run (S (length text)) empty_pst zero_buf (S (Z.to_nat m)) text.

(* the same with copy_line alone (no blanking of the buffer tail): the code before the repair *)
Fixpoint run_raw (fuel : nat) (s : pst) (buf : str) (size : nat) (d : str) : pst :=
  match fuel with
  | O => s
  | S f => match copy_line buf size d with
           | None => s
           | Some (b, len, r) => if (len =? 0)%nat then s else
                                 let '(s', stop) := step s b len in
                                 if stop then s' else run_raw f s' b size r
           end
  end.
