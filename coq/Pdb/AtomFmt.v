(* A printf interpreter for the directives that write_chain_atoms uses (%[-][width][.prec]s, %c, %Wd, %W.Pf with the
   number already turned into text) and the statement that the model's ATOM line (Pdb/AtomLine.v) IS what the two format
   strings in src/to_pdb.cpp produce from the atom's fields.  The format strings are regenerated from the source on
   every run (Pdb/AtomFmt_gen.v), so an edit of a width, a precision or a literal blank in the source changes the
   theorem that the kernel checks. *)
From GV Require Import Base.Str Pdb.Hy36 Pdb.AtomLine Pdb.AtomFmt_gen.
Local Open Scope Z_scope.

Inductive farg := AStr (s : str) | AChar (c : Z) | ANum (text : str) | AInt (n : Z).

(* digits of a width / precision *)
Fixpoint fmt_num (acc : nat) (s : str) : nat * str :=
  match s with
  | c :: t => if is_digit c then fmt_num (acc * 10 + Z.to_nat (c - 48)) t else (acc, s)
  | [] => (acc, [])
  end.

Definition apply_s (lj : bool) (w : nat) (prec : option nat) (s : str) : str :=
  let s' := match prec with Some p => firstn p s | None => s end in
  if lj then s' ++ repeat 32 (w - length s') else repeat 32 (w - length s') ++ s'.

(* one piece per directive or literal byte; None = malformed format / wrong or missing argument *)
Fixpoint interp (fuel : nat) (f : str) (args : list farg) : option (list str) :=
  match fuel with
  | O => None
  | S fuel' =>
    match f with
    | [] => match args with [] => Some [] | _ => None end
    | 37 :: t =>
      let '(lj, t1) := match t with 45 :: u => (true, u) | _ => (false, t) end in
      let '(w, t2) := fmt_num 0 t1 in
      let '(prec, t3) := match t2 with 46 :: u => let '(p, v) := fmt_num 0 u in (Some p, v) | _ => (None, t2) end in
      match t3, args with
      | 115 :: rest, AStr s :: args' =>
        match interp fuel' rest args' with Some l => Some (apply_s lj w prec s :: l) | None => None end
      | 99 :: rest, AChar c :: args' =>
        match interp fuel' rest args' with Some l => Some ([c] :: l) | None => None end
      | 102 :: rest, ANum s :: args' =>
        match interp fuel' rest args' with Some l => Some (s :: l) | None => None end
      | 100 :: rest, AInt n :: args' =>       (* %Nd *)
        match interp fuel' rest args' with Some l => Some (rjust w (print_dec n) :: l) | None => None end
      | 122 :: 117 :: rest, AInt n :: args' =>       (* %Nzu *)
        match interp fuel' rest args' with Some l => Some (rjust w (print_dec n) :: l) | None => None end
      | _, _ => None
      end
    | c :: t => match interp fuel' t args with Some l => Some ([c] :: l) | None => None end
    end
  end.

Definition args1 (t : atext) (x y z : str) : list farg :=
  [AStr (if t_het t then [72;69;84;65;84;77] else [65;84;79;77]); AStr (encode_serial (t_serial t));
   AStr (padded_name t); AChar (write_altloc (t_altloc t)); AStr (t_resname t); AStr (t_chain t);
   AStr (write_seq_id (t_seqnum t) (t_icode t)); ANum x; ANum y; ANum z].
Definition args2 (t : atext) (occ b : str) : list farg :=
  [ANum occ; ANum b; AStr (t_segment t); AStr (t_el t);
   AChar (fst (write_charge (t_charge t))); AChar (snd (write_charge (t_charge t)))].

Definition fmt_line (t : atext) (x y z occ b : str) : option str :=
  match interp 100 atom_fmt1 (args1 t x y z), interp 100 atom_fmt2 (args2 t occ b) with
  | Some l1, Some l2 => Some (concat l1 ++ concat l2)
  | _, _ => None
  end.

(* THE TIE: the model's line is the text the two format strings of the source produce *)
Theorem atom_line_is_format : forall t x y z occ b,
  fmt_line t x y z occ b = Some (atom_line t (x ++ y ++ z) occ b).
Proof.
  intros t x y z occ b. unfold fmt_line.
  assert (E1 : interp 100 atom_fmt1 (args1 t x y z) =
    Some [apply_s true 6 None (if t_het t then [72;69;84;65;84;77] else [65;84;79;77]);
          apply_s false 5 None (encode_serial (t_serial t)); [32];
          apply_s true 4 (Some 4%nat) (padded_name t); [write_altloc (t_altloc t)];
          apply_s false 3 (Some 3%nat) (t_resname t); apply_s false 2 None (t_chain t);
          apply_s false 5 None (write_seq_id (t_seqnum t) (t_icode t)); [32]; [32]; [32]; x; y; z]) by reflexivity.
  assert (E2 : interp 100 atom_fmt2 (args2 t occ b) =
    Some [occ; b; [32]; [32]; [32]; [32]; [32]; [32]; apply_s true 4 (Some 4%nat) (t_segment t);
          apply_s false 2 None (t_el t); [fst (write_charge (t_charge t))]; [snd (write_charge (t_charge t))]]) by reflexivity.
  rewrite E1, E2. f_equal. unfold atom_line, atom_pieces, atom_head. cbn [app].
  unfold apply_s, field5, rjust, ljust_trunc, rjust_trunc, rjust, REC_ATOM, REC_HETATM.
  cbn [concat]. rewrite !app_nil_r. rewrite <- !app_assoc. cbn [app].
  destruct (t_het t); cbn [length Nat.sub repeat app]; reflexivity.
Qed.
