(* Proofs about Pdb/CcdAlias.v: the aliases are pairwise distinct, well-shaped, and restore undoes shorten. *)
From Coq Require Import Lia Permutation.
From GV Require Import Pdb.CcdAlias.
Local Open Scope Z_scope.

Lemma ca_str_eqb_iff : forall a b, str_eqb a b = true <-> a = b.
Proof.
  induction a as [|x a IH]; intros [|y b]; simpl; split; intro H; try discriminate; try reflexivity.
  - apply andb_true_iff in H. destruct H as [H1 H2]. apply Z.eqb_eq in H1. apply IH in H2. congruence.
  - injection H as -> ->. rewrite Z.eqb_refl. simpl. apply IH. reflexivity.
Qed.

Lemma ca_str_eqb_false : forall a b, str_eqb a b = false <-> a <> b.
Proof.
  intros a b. split.
  - intros H E. apply ca_str_eqb_iff in E. congruence.
  - intros H. destruct (str_eqb a b) eqn:E; [|reflexivity]. apply ca_str_eqb_iff in E. contradiction.
Qed.

Definition aliases (v : list entry) : list str := map snd v.
Definition nonempty (a : str) : bool := match a with [] => false | _ => true end.
(* the aliases given so far are pairwise distinct *)
Definition good (v : list entry) : Prop := NoDup (filter nonempty (aliases v)).
(* an alias is absent or has the shape "~xy" *)
Definition shaped (a : str) : Prop := a = [] \/ exists x y, a = [126; x; y].

Lemma has_alias_iff : forall code v, has_alias code v = true <-> In code (aliases v).
Proof.
  intros code v. unfold has_alias, aliases. rewrite existsb_exists. split.
  - intros [p [Hp E]]. apply ca_str_eqb_iff in E. apply in_map_iff. exists p. auto.
  - intros H. apply in_map_iff in H. destruct H as [p [E Hp]]. exists p. split; [exact Hp|]. apply ca_str_eqb_iff. exact E.
Qed.

Lemma aliases_app : forall a b, aliases (a ++ b) = aliases a ++ aliases b.
Proof. intros. unfold aliases. apply map_app. Qed.

Lemma good_insert : forall d t o code,
  good (d ++ t) -> (code = [] \/ ~ In code (aliases (d ++ t))) -> good (d ++ (o, code) :: t).
Proof.
  intros d t o code G H. unfold good in *. rewrite aliases_app in *. cbn [aliases map snd].
  rewrite filter_app in *. cbn [filter].
  destruct code as [|c cs]; cbn [nonempty]; [exact G|].
  destruct H as [H|H]; [discriminate|].
  apply (Permutation_NoDup (l := (c :: cs) :: filter nonempty (aliases d) ++ filter nonempty (aliases t))).
  - apply Permutation_middle.
  - constructor; [|exact G]. intros I. apply H. rewrite <- filter_app in I. apply filter_In in I. apply I.
Qed.

(* ---------------- pass 1 ---------------- *)
Lemma pass1_spec : forall todo done,
  good done -> Forall shaped (aliases done) ->
  good (pass1 done todo) /\ Forall shaped (aliases (pass1 done todo)) /\
  map fst (pass1 done todo) = map fst done ++ map fst todo.
Proof.
  induction todo as [|[old a] t IH]; intros done G S.
  - cbn [pass1]. rewrite app_nil_r. auto.
  - cbn [pass1].
    set (code := last_two_alias old). set (taken := has_alias code done || has_alias code t).
    assert (G' : good (done ++ [(old, if taken then [] else code)])).
    { apply good_insert; rewrite app_nil_r; [exact G|].
      destruct taken eqn:T; [left; reflexivity|right].
      unfold taken in T. apply orb_false_iff in T. destruct T as [T _].
      intros I. apply has_alias_iff in I. congruence. }
    assert (S' : Forall shaped (aliases (done ++ [(old, if taken then [] else code)]))).
    { rewrite aliases_app. apply Forall_app. split; [exact S|]. constructor; [|constructor].
      destruct taken; [left; reflexivity|right]. unfold code, last_two_alias. do 2 eexists. reflexivity. }
    destruct (IH _ G' S') as [H1 [H2 H3]]. split; [exact H1|]. split; [exact H2|].
    rewrite H3. rewrite map_app. cbn [map fst]. rewrite <- app_assoc. reflexivity.
Qed.

(* ---------------- pass 2 ---------------- *)
Lemma take_number_spec : forall fuel i others i' code, take_number fuel i others = (i', code) ->
  code = [] \/ (~ In code (aliases others) /\ exists k, code = num_alias k).
Proof.
  induction fuel as [|f IH]; intros i others i' code H; cbn [take_number] in H.
  - injection H as _ <-. left. reflexivity.
  - destruct (negb (i + 1 <? limit)); [injection H as _ <-; left; reflexivity|].
    destruct (has_alias (num_alias (i + 1)) others) eqn:E.
    + exact (IH _ _ _ _ H).
    + injection H as _ <-. right. split; [|eauto]. intros I. apply has_alias_iff in I. congruence.
Qed.

Lemma pass2_spec : forall fuel todo i done,
  good (done ++ todo) -> Forall shaped (aliases (done ++ todo)) ->
  good (pass2 fuel i done todo) /\ Forall shaped (aliases (pass2 fuel i done todo)) /\
  map fst (pass2 fuel i done todo) = map fst done ++ map fst todo.
Proof.
  intros fuel. induction todo as [|[old a] t IH]; intros i done G S.
  - cbn [pass2]. rewrite app_nil_r in *. auto.
  - cbn [pass2]. destruct a as [|c cs].
    + destruct (take_number fuel i (done ++ t)) as [i' code] eqn:T. cbv beta iota.
      assert (Gdt : good (done ++ t)).
      { unfold good in *. rewrite aliases_app in *. rewrite filter_app in *. exact G. }
      destruct (take_number_spec _ _ _ _ _ T) as [E|[N [k Ek]]].
      * subst code.
        assert (R : (done ++ [(old, [])]) ++ t = done ++ (old, []) :: t) by (rewrite <- app_assoc; reflexivity).
        destruct (IH i' (done ++ [(old, [])])) as [H1 [H2 H3]]; [rewrite R; exact G|rewrite R; exact S|].
        split; [exact H1|]. split; [exact H2|]. etransitivity; [exact H3|]. rewrite map_app. cbn [map fst]. rewrite <- app_assoc. reflexivity.
      * assert (R : (done ++ [(old, code)]) ++ t = done ++ (old, code) :: t) by (rewrite <- app_assoc; reflexivity).
        destruct (IH i' (done ++ [(old, code)])) as [H1 [H2 H3]].
        { rewrite R. apply good_insert; [exact Gdt|right; exact N]. }
        { rewrite R. rewrite aliases_app in *. apply Forall_app in S. destruct S as [S1 S2].
          apply Forall_app. split; [exact S1|]. inversion S2; subst. constructor; [|assumption].
          right. unfold num_alias. do 2 eexists. reflexivity. }
        split; [exact H1|]. split; [exact H2|]. etransitivity; [exact H3|]. rewrite map_app. cbn [map fst]. rewrite <- app_assoc. reflexivity.
    + assert (R : (done ++ [(old, c :: cs)]) ++ t = done ++ (old, c :: cs) :: t) by (rewrite <- app_assoc; reflexivity).
      destruct (IH i (done ++ [(old, c :: cs)])) as [H1 [H2 H3]]; [rewrite R; exact G|rewrite R; exact S|].
      split; [exact H1|]. split; [exact H2|]. etransitivity; [exact H3|]. rewrite map_app. cbn [map fst]. rewrite <- app_assoc. reflexivity.
Qed.

(* ---------------- the collected names ---------------- *)
Definition is_long (n : str) : Prop := (3 < length n)%nat.

Lemma has_name_iff : forall n v, has_name n v = true <-> In n (map fst v).
Proof.
  intros n v. unfold has_name. rewrite existsb_exists. split.
  - intros [p [Hp E]]. apply ca_str_eqb_iff in E. apply in_map_iff. exists p. auto.
  - intros H. apply in_map_iff in H. destruct H as [p [E Hp]]. exists p. split; [exact Hp|]. apply ca_str_eqb_iff. exact E.
Qed.

Lemma collect_long_spec : forall names v,
  NoDup (map fst v) -> Forall is_long (map fst v) -> Forall (fun a => a = []) (aliases v) ->
  let r := collect_long names v in
  NoDup (map fst r) /\ Forall is_long (map fst r) /\ Forall (fun a => a = []) (aliases r) /\
  (forall n, In n (map fst r) <-> In n (map fst v) \/ (In n names /\ is_long n)).
Proof.
  induction names as [|n t IH]; intros v ND L E; cbn [collect_long].
  - repeat split; auto. intros [H|[[] _]]. exact H.
  - destruct (Nat.ltb_spec 3 (length n)) as [Hl|Hs]; cbn [andb].
    + destruct (has_name n v) eqn:Hn; cbn [negb].
      * destruct (IH v ND L E) as [A [B [C D]]]. repeat split; auto.
        -- intros H. apply D in H. destruct H as [H|[H1 H2]]; [left; exact H|right; split; [right; exact H1|exact H2]].
        -- intros [H|[[->|H1] H2]]; apply D; auto. left. apply has_name_iff. exact Hn.
      * assert (Nin : ~ In n (map fst v)) by (intros I; apply has_name_iff in I; congruence).
        destruct (IH (v ++ [(n, [])])) as [A [B [C D]]].
        { rewrite map_app. cbn [map fst]. apply NoDup_app_remove_r with (l' := []) || idtac.
          apply (Permutation_NoDup (l := n :: map fst v)); [|constructor; assumption].
          rewrite Permutation_app_comm. reflexivity. }
        { rewrite map_app. apply Forall_app. split; [exact L|]. constructor; [exact Hl|constructor]. }
        { rewrite aliases_app. apply Forall_app. split; [exact E|]. constructor; [reflexivity|constructor]. }
        repeat split; auto.
        -- intros H. apply D in H. rewrite map_app, in_app_iff in H. cbn [map fst In] in H.
           destruct H as [[H|[<-|[]]]|[H1 H2]];
             [left; exact H | right; split; [left; reflexivity|exact Hl] | right; split; [right; exact H1|exact H2]].
        -- intros H. apply D. rewrite map_app, in_app_iff. cbn [map fst In].
           destruct H as [H|[[->|H1] H2]]; [left; left; exact H | left; right; left; reflexivity | right; split; assumption].
    + destruct (IH v ND L E) as [A [B [C D]]]. repeat split; auto.
      * intros H. apply D in H. destruct H as [H|[H1 H2]]; [left; exact H|right; split; [right; exact H1|exact H2]].
      * intros [H|[[->|H1] H2]]; apply D; auto. unfold is_long in H2. lia.
Qed.

Lemma all_empty_filter : forall l : list str, Forall (fun a => a = []) l -> filter nonempty l = [].
Proof. induction l as [|a l IH]; intros H; [reflexivity|]. inversion H; subst. cbn [filter nonempty]. auto. Qed.

(* ---------------- the table ---------------- *)
Theorem shorten_table_spec : forall names,
  let t := shorten_table names in
  good t /\ Forall shaped (aliases t) /\ NoDup (map fst t) /\ Forall is_long (map fst t) /\
  (forall n, In n (map fst t) <-> In n names /\ is_long n).
Proof.
  intros names t. unfold t, shorten_table.
  destruct (collect_long_spec names [] (NoDup_nil _) (Forall_nil _) (Forall_nil _)) as [A [B [C D]]].
  pose proof (all_empty_filter _ C) as Z0.
  set (c := collect_long names []) in *.
  assert (Gc : good c).
  { unfold good. refine (eq_ind_r (fun l => NoDup l) (NoDup_nil _) Z0). }
  assert (Sc : Forall shaped (aliases c)).
  { eapply Forall_impl; [|exact C]. intros a ->. left. reflexivity. }
  destruct (pass1_spec c [] (NoDup_nil _) (Forall_nil _)) as [P1 [P2 P3]]. cbn [map app] in P3.
  destruct (pass2_spec (Z.to_nat 1000) (pass1 [] c) (-1) []) as [Q1 [Q2 Q3]]; [exact P1|exact P2|].
  cbn [map app] in Q3. rewrite Q3, P3.
  split; [exact Q1|]. split; [exact Q2|]. split; [exact A|]. split; [exact B|].
  intros n. split.
  - intros Hn. apply D in Hn. destruct Hn as [[]|Hn]. exact Hn.
  - intros Hn. apply D. right. exact Hn.
Qed.

(* ---------------- shorten, then restore ---------------- *)
Definition sh1 (t : list entry) (n : str) : str := fold_left (fun x p => if str_eqb x (fst p) then snd p else x) t n.
Definition re1 (t : list entry) (n : str) : str := fold_left (fun x p => if str_eqb x (snd p) then fst p else x) t n.

Lemma apply_shorten_map : forall t names, apply_shorten t names = map (sh1 t) names.
Proof.
  induction t as [|p t IH]; intros names; unfold apply_shorten, sh1 in *; cbn [fold_left].
  - rewrite map_id. reflexivity.
  - rewrite IH. unfold rename. rewrite map_map. reflexivity.
Qed.

Lemma apply_restore_map : forall t names, apply_restore t names = map (re1 t) names.
Proof.
  induction t as [|p t IH]; intros names; unfold apply_restore, re1 in *; cbn [fold_left].
  - rewrite map_id. reflexivity.
  - rewrite IH. unfold rename. rewrite map_map. reflexivity.
Qed.

Lemma sh1_notin : forall t x, (forall p, In p t -> fst p <> x) -> sh1 t x = x.
Proof.
  induction t as [|p t IH]; intros x H; [reflexivity|]. unfold sh1 in *. cbn [fold_left].
  assert (E : str_eqb x (fst p) = false).
  { apply ca_str_eqb_false. intros ->. apply (H p); [left; reflexivity|reflexivity]. }
  rewrite E. apply IH. intros q Hq. apply H. right. exact Hq.
Qed.

Lemma re1_notin : forall t x, (forall p, In p t -> snd p <> x) -> re1 t x = x.
Proof.
  induction t as [|p t IH]; intros x H; [reflexivity|]. unfold re1 in *. cbn [fold_left].
  assert (E : str_eqb x (snd p) = false).
  { apply ca_str_eqb_false. intros ->. apply (H p); [left; reflexivity|reflexivity]. }
  rewrite E. apply IH. intros q Hq. apply H. right. exact Hq.
Qed.

Lemma sh1_app : forall a b x, sh1 (a ++ b) x = sh1 b (sh1 a x).
Proof. intros. unfold sh1. apply fold_left_app. Qed.
Lemma re1_app : forall a b x, re1 (a ++ b) x = re1 b (re1 a x).
Proof. intros. unfold re1. apply fold_left_app. Qed.

Lemma sh1_cons_hit : forall n a t, sh1 ((n, a) :: t) n = sh1 t a.
Proof. intros. unfold sh1. cbn [fold_left fst snd]. rewrite (proj2 (ca_str_eqb_iff n n) eq_refl). reflexivity. Qed.
Lemma re1_cons_hit : forall n a t, re1 ((n, a) :: t) a = re1 t n.
Proof. intros. unfold re1. cbn [fold_left fst snd]. rewrite (proj2 (ca_str_eqb_iff a a) eq_refl). reflexivity. Qed.

Definition tilde (a : str) : Prop := exists x y, a = [126; x; y].

Lemma roundtrip_one : forall t n,
  NoDup (map fst t) -> Forall is_long (map fst t) -> Forall tilde (aliases t) -> NoDup (aliases t) ->
  nth 0 n 0 <> 126 -> re1 t (sh1 t n) = n.
Proof.
  intros t n ND L T NA Hn.
  assert (NotAlias : forall p, In p t -> snd p <> n).
  { intros p Hp E. rewrite Forall_forall in T. destruct (T (snd p)) as [x [y Exy]]; [apply in_map; exact Hp|].
    rewrite <- E, Exy in Hn. apply Hn. reflexivity. }
  destruct (in_dec (list_eq_dec Z.eq_dec) n (map fst t)) as [Hin|Hout].
  - apply in_map_iff in Hin. destruct Hin as [[o a] [Eo Hp]]. cbn [fst] in Eo. subst o.
    destruct (in_split _ _ Hp) as [t1 [t2 Et]]. subst t.
    rewrite map_app in ND, L. cbn [map fst] in ND, L.
    unfold aliases in T, NA. rewrite map_app in T, NA. cbn [map snd] in T, NA.
    assert (N1 : forall p, In p t1 -> fst p <> n).
    { intros p Hq E. apply NoDup_remove_2 in ND. apply ND. apply in_or_app. left. rewrite <- E. apply in_map. exact Hq. }
    assert (N2 : forall p, In p t2 -> fst p <> n).
    { intros p Hq E. apply NoDup_remove_2 in ND. apply ND. apply in_or_app. right. rewrite <- E. apply in_map. exact Hq. }
    assert (Ta : tilde a).
    { rewrite Forall_forall in T. apply T. apply in_or_app. right. left. reflexivity. }
    (* shorten *)
    rewrite sh1_app. rewrite (sh1_notin t1 n N1). rewrite sh1_cons_hit.
    assert (S2 : sh1 t2 a = a).
    { apply sh1_notin. intros p Hq E. rewrite Forall_forall in L.
      assert (Lp : is_long (fst p)) by (apply L; apply in_or_app; right; right; apply in_map; exact Hq).
      destruct Ta as [x [y Ea]]. rewrite E, Ea in Lp. unfold is_long in Lp. simpl in Lp. lia. }
    rewrite S2.
    (* restore *)
    rewrite re1_app.
    assert (R1 : re1 t1 a = a).
    { apply re1_notin. intros p Hq E. apply NoDup_remove_2 in NA. apply NA. apply in_or_app. left.
      rewrite <- E. apply in_map. exact Hq. }
    rewrite R1. rewrite re1_cons_hit.
    apply re1_notin. intros p Hq. apply NotAlias. apply in_or_app. right. right. exact Hq.
  - rewrite sh1_notin.
    + apply re1_notin. exact NotAlias.
    + intros p Hp E. apply Hout. rewrite <- E. apply in_map. exact Hp.
Qed.

Lemma filter_all : forall (l : list str), Forall (fun a => a <> []) l -> filter nonempty l = l.
Proof.
  induction l as [|a l IH]; intros H; [reflexivity|]. inversion H; subst. cbn [filter].
  destruct a; [contradiction|]. cbn [nonempty]. f_equal. apply IH. assumption.
Qed.

(* restore_full_ccd_codes undoes shorten_ccd_codes on every list of residue names, none of which starts with '~',
   as long as the numbered aliases did not run out (every long name got an alias) *)
Theorem shorten_restore_roundtrip : forall names,
  (forall n, In n names -> nth 0 n 0 <> 126) ->
  let t := shorten_table names in
  Forall (fun a => a <> []) (aliases t) ->
  apply_restore t (apply_shorten t names) = names.
Proof.
  intros names Hn t Hne.
  destruct (shorten_table_spec names) as [G [S [ND [L _]]]]. fold t in G, S, ND, L.
  rewrite apply_shorten_map, apply_restore_map, map_map.
  rewrite <- (map_id names) at 2. apply map_ext_in. intros n Hin.
  apply roundtrip_one; auto.
  - rewrite Forall_forall in *. intros a Ha. destruct (S a Ha) as [E|[x [y E]]]; [exfalso; exact (Hne a Ha E)|].
    exists x, y. exact E.
  - unfold good in G. rewrite (filter_all _ Hne) in G. exact G.
Qed.

(* the shortened names fit the PDB residue-name field *)
Theorem shortened_names_fit : forall names,
  let t := shorten_table names in
  Forall (fun a => a <> []) (aliases t) ->
  forall n, In n (apply_shorten t names) -> (length n <= 3)%nat.
Proof.
  intros names t Hne n Hin.
  destruct (shorten_table_spec names) as [G [S [ND [L Hall]]]]. fold t in G, S, ND, L, Hall.
  rewrite apply_shorten_map in Hin. apply in_map_iff in Hin. destruct Hin as [m [Em Hm]]. subst n.
  destruct (Nat.le_gt_cases (length m) 3) as [Short|Long].
  - rewrite sh1_notin; [exact Short|]. intros p Hp E. rewrite Forall_forall in L.
    assert (is_long (fst p)) by (apply L; apply in_map; exact Hp). rewrite E in H. unfold is_long in H. lia.
  - assert (Hin : In m (map fst t)) by (apply Hall; split; [exact Hm|exact Long]).
    apply in_map_iff in Hin. destruct Hin as [[o a] [Eo Hp]]. cbn [fst] in Eo. subst o.
    destruct (in_split _ _ Hp) as [t1 [t2 Et]]. rewrite Et in *.
    rewrite map_app in ND, L. cbn [map fst] in ND, L.
    unfold aliases in S, Hne. rewrite map_app in S, Hne. cbn [map snd] in S, Hne.
    rewrite sh1_app.
    rewrite (sh1_notin t1 m).
    2:{ intros p Hq E. apply NoDup_remove_2 in ND. apply ND. apply in_or_app. left. rewrite <- E. apply in_map. exact Hq. }
    rewrite sh1_cons_hit.
    assert (Ta : exists x y, a = [126; x; y]).
    { rewrite Forall_forall in S, Hne. assert (Ia : In a (map snd t1 ++ a :: map snd t2)) by (apply in_or_app; right; left; reflexivity).
      destruct (S a Ia) as [E|E]; [exfalso; exact (Hne a Ia E)|exact E]. }
    destruct Ta as [x [y Ea]].
    rewrite sh1_notin; [rewrite Ea; simpl; lia|].
    intros p Hq E. rewrite Forall_forall in L.
    assert (Lp : is_long (fst p)) by (apply L; apply in_or_app; right; right; apply in_map; exact Hq).
    rewrite E, Ea in Lp. unfold is_long in Lp. simpl in Lp. lia.
Qed.
