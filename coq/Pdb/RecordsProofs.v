(* Proofs about the line buffer: after the repaired loop step (copy_line + blanking of the tail) the whole
   buffer, the length and the rest of the stream are a function of the stream alone; with copy_line alone
   they are not (witness). *)
From Coq Require Import Lia ZifyBool String Ascii.
From GV Require Import Base.Str Pdb.Hy36 Pdb.Records.
Local Open Scope Z_scope.

(* invariant of `char line[122] = {0}`: 122 bytes, the last one is never written *)
Definition wf (buf : str) : Prop := length buf = 122%nat /\ nth 121 buf 0 = 0.

Lemma wf_zero : wf zero_buf.
Proof. split; reflexivity. Qed.

Lemma strlen_app_nul : forall l x, strlen ((l ++ [0]) ++ x) = strlen l.
Proof. induction l as [|c l IH]; intros x; [reflexivity|]. cbn [app strlen]. rewrite IH. reflexivity. Qed.

Lemma strlen_le : forall l, (strlen l <= length l)%nat.
Proof. induction l as [|c l IH]; [cbn; lia|]. cbn [strlen length]. destruct (c =? 0); lia. Qed.

Lemma take_line_len : forall m d, (length (fst (take_line m d)) <= m)%nat.
Proof.
  induction m as [|m IH]; intros d; [destruct d; cbn; lia|].
  destruct d as [|c t]; [cbn; lia|]. cbn [take_line]. destruct (c =? 10); [cbn; lia|].
  specialize (IH t). destruct (take_line m t) as [l r]. cbn [fst length] in *. lia.
Qed.

Lemma skipn_last : forall n (b : str), length b = S n -> skipn n b = [nth n b 0].
Proof.
  induction n as [|n IH]; intros b H.
  - destruct b as [|x [|y b]]; cbn in H; try lia. reflexivity.
  - destruct b as [|x b]; cbn in H; [lia|]. cbn [skipn nth]. apply IH. lia.
Qed.

Lemma wf_tail : forall b, wf b -> skipn 121 b = [0].
Proof. intros b [H1 H2]. rewrite (skipn_last 121 b H1), H2. reflexivity. Qed.

Lemma skipn_skipn_ : forall y x (l : str), skipn x (skipn y l) = skipn (x + y) l.
Proof.
  induction y as [|y IH]; intros x l; [rewrite Nat.add_0_r; reflexivity|].
  rewrite Nat.add_succ_r. destruct l as [|a l]; [rewrite !skipn_nil; reflexivity|]. cbn [skipn]. apply IH.
Qed.

Lemma skipn_overwrite : forall (a b : str) k, (length a <= k)%nat ->
  skipn k (a ++ skipn (length a) b) = skipn k b.
Proof.
  intros a b k H. rewrite skipn_app, skipn_all2 by assumption. cbn [app].
  rewrite skipn_skipn_. f_equal. lia.
Qed.

(* the loop step written without the old buffer *)
Definition next_line_spec (size : nat) (d : str) : option (str * nat * str) :=
  match d with
  | [] => None
  | _ => let '(l, r) := take_line (pred size) d in
         let len := strlen l in
         let r' := if (0 <? len)%nat && negb (nth (pred len) (l ++ [0]) 0 =? 10) then discard r else r in
         if (len =? 0)%nat then None
         else Some (firstn (S len) (l ++ [0]) ++ repeat 32 (120 - len) ++ [0], len, r')
  end.

Lemma next_line_closed : forall b size d, wf b -> (size <= 121)%nat ->
  next_line b size d = next_line_spec size d.
Proof.
  intros b size d Hwf Hsize. unfold next_line, next_line_spec, copy_line.
  destruct d as [|c0 d0]; [reflexivity|].
  pose proof (take_line_len (pred size) (c0 :: d0)) as Hlen.
  destruct (take_line (pred size) (c0 :: d0)) as [l r]. cbn [fst] in Hlen.
  unfold overwrite. rewrite strlen_app_nul.
  pose proof (strlen_le l) as Hs.
  assert (Ha : length (l ++ [0]) = S (length l)) by (rewrite app_length; cbn; lia).
  rewrite app_nth1 by lia.
  destruct (strlen l =? 0)%nat; [reflexivity|].
  unfold pad. rewrite skipn_overwrite by lia. rewrite (wf_tail b Hwf).
  rewrite firstn_app, Ha. replace (S (strlen l) - S (length l))%nat with 0%nat by lia.
  cbn [firstn]. rewrite app_nil_r. reflexivity.
Qed.

(* C06: what a record handler sees does not depend on earlier lines *)
Theorem next_line_no_stale : forall b1 b2 size d, wf b1 -> wf b2 -> (size <= 121)%nat ->
  next_line b1 size d = next_line b2 size d.
Proof. intros. rewrite !next_line_closed by assumption. reflexivity. Qed.

Theorem next_line_wf : forall b size d b' len r, wf b -> (size <= 121)%nat ->
  next_line b size d = Some (b', len, r) -> wf b' /\ (0 < len <= 120)%nat.
Proof.
  intros b size d b' len r Hwf Hsize H. rewrite next_line_closed in H by assumption.
  unfold next_line_spec in H. destruct d as [|c0 d0]; [discriminate|].
  pose proof (take_line_len (pred size) (c0 :: d0)) as Hlen.
  destruct (take_line (pred size) (c0 :: d0)) as [l r0]. cbn [fst] in Hlen.
  pose proof (strlen_le l) as Hs.
  destruct (strlen l =? 0)%nat eqn:E; [discriminate|].
  assert (Hb : b' = firstn (S (strlen l)) (l ++ [0]) ++ repeat 32 (120 - strlen l) ++ [0]) by congruence.
  assert (Hl : len = strlen l) by congruence. clear H. subst b' len.
  assert (Hf : length (firstn (S (strlen l)) (l ++ [0])) = S (strlen l)).
  { rewrite firstn_length, app_length. cbn [length]. lia. }
  split; [|lia]. split.
  - rewrite !app_length, repeat_length, Hf. cbn [length]. lia.
  - rewrite app_nth2 by lia. rewrite Hf. rewrite app_nth2 by (rewrite repeat_length; lia).
    rewrite repeat_length. replace (121 - S (strlen l) - (120 - strlen l))%nat with 0%nat by lia. reflexivity.
Qed.

(* whole files: the records read do not depend on what the buffer held initially *)
Theorem run_no_stale : forall fuel s b1 b2 size d, wf b1 -> wf b2 -> (size <= 121)%nat ->
  run fuel s b1 size d = run fuel s b2 size d.
Proof.
  intros fuel s b1 b2 size d H1 H2 Hs. destruct fuel; [reflexivity|]. cbn [run].
  rewrite (next_line_no_stale b1 b2) by assumption. reflexivity.
Qed.

(* ---------------------------------------------------------------- the witness against copy_line alone *)

Definition zs (s : string) : str := List.map (fun a => Z.of_N (N_of_ascii a)) (list_ascii_of_string s).
Definition nl : str := [10].

Definition seqres_long : str :=
  zs "SEQRES   1 A   13  MET LYS THR ALA TYR ILE ALA LYS GLN ARG GLN ILE SER" ++ nl.
Definition seqres_short : str := zs "SEQRES   1 B    2  ALA GLY" ++ nl.

Definition seq_counts (s : pst) : list nat := List.map (fun e => length (e_seq e)) (p_ents s).

(* the buffer left behind by the long line *)
Definition buf_after_long : str :=
  match copy_line zero_buf 121 seqres_long with Some (b, _, _) => b | None => zero_buf end.

Lemma wf_after_long : wf buf_after_long.
Proof. split; vm_compute; reflexivity. Qed.

(* copy_line alone: the 2-residue line is read as 12 residues when it follows the 13-residue line *)
Theorem copy_line_alone_stale : exists b1 b2 d, wf b1 /\ wf b2 /\
  run_raw 1 empty_pst b1 121 d <> run_raw 1 empty_pst b2 121 d.
Proof.
  exists zero_buf, buf_after_long, seqres_short. split; [exact wf_zero|]. split; [exact wf_after_long|].
  intro H. apply (f_equal seq_counts) in H. vm_compute in H. discriminate H.
Qed.

Example stale_counts :
  seq_counts (run_raw 5 empty_pst zero_buf 121 (seqres_long ++ seqres_short)) = [13; 12]%nat /\
  seq_counts (parse_records 0 (seqres_long ++ seqres_short)) = [13; 2]%nat.
Proof. vm_compute. split; reflexivity. Qed.
