(* Proofs about the line buffer: after the repaired loop step (copy_line + blanking of the tail) the whole
   buffer, the length and the rest of the stream are a function of the stream alone; with copy_line alone
   they are not (witness). *)
From Coq Require Import Lia ZifyBool String Ascii.
From GV Require Import Base.Str Pdb.Hy36 Pdb.Records.
Local Open Scope Z_scope.

(* invariant of `char line[122] = {0}`: 122 bytes, the last one is never written *)
Definition wf (buf : str) : Prop := length buf = 122%nat /\ nth 121 buf 0 = 0.

Lemma wf_zero : wf zero_buf.
Proof. split; reflexivity. Qed.

Lemma strlen_app_nul : forall l x, strlen ((l ++ [0]) ++ x) = strlen l.
Proof. induction l as [|c l IH]; intros x; [reflexivity|]. cbn [app strlen]. rewrite IH. reflexivity. Qed.

Lemma strlen_le : forall l, (strlen l <= length l)%nat.
Proof. induction l as [|c l IH]; [cbn; lia|]. cbn [strlen length]. destruct (c =? 0); lia. Qed.

Lemma take_line_len : forall m d, (length (fst (take_line m d)) <= m)%nat.
Proof.
  induction m as [|m IH]; intros d; [destruct d; cbn; lia|].
  destruct d as [|c t]; [cbn; lia|]. cbn [take_line]. destruct (c =? 10); [cbn; lia|].
  specialize (IH t). destruct (take_line m t) as [l r]. cbn [fst length] in *. lia.
Qed.

Lemma skipn_last : forall n (b : str), length b = S n -> skipn n b = [nth n b 0].
Proof.
  induction n as [|n IH]; intros b H.
  - destruct b as [|x [|y b]]; cbn in H; try lia. reflexivity.
  - destruct b as [|x b]; cbn in H; [lia|]. cbn [skipn nth]. apply IH. lia.
Qed.

Lemma wf_tail : forall b, wf b -> skipn 121 b = [0].
Proof. intros b [H1 H2]. rewrite (skipn_last 121 b H1), H2. reflexivity. Qed.

Lemma skipn_skipn_ : forall y x (l : str), skipn x (skipn y l) = skipn (x + y) l.
Proof.
  induction y as [|y IH]; intros x l; [rewrite Nat.add_0_r; reflexivity|].
  rewrite Nat.add_succ_r. destruct l as [|a l]; [rewrite !skipn_nil; reflexivity|]. cbn [skipn]. apply IH.
Qed.

Lemma skipn_overwrite : forall (a b : str) k, (length a <= k)%nat ->
  skipn k (a ++ skipn (length a) b) = skipn k b.
Proof.
  intros a b k H. rewrite skipn_app, skipn_all2 by assumption. cbn [app].
  rewrite skipn_skipn_. f_equal. lia.
Qed.

(* the loop step written without the old buffer *)
Definition next_line_spec (size : nat) (d : str) : option (str * nat * str) :=
  match d with
  | [] => None
  | _ => let '(l, r) := take_line (pred size) d in
         let len := strlen l in
         let r' := if (0 <? len)%nat && negb (nth (pred len) (l ++ [0]) 0 =? 10) then discard r else r in
         if (len =? 0)%nat then None
         else Some (firstn (S len) (l ++ [0]) ++ repeat 32 (120 - len) ++ [0], len, r')
  end.

Lemma next_line_closed : forall b size d, wf b -> (size <= 121)%nat ->
  next_line b size d = next_line_spec size d.
Proof.
  intros b size d Hwf Hsize. unfold next_line, next_line_spec, copy_line.
  destruct d as [|c0 d0]; [reflexivity|].
  pose proof (take_line_len (pred size) (c0 :: d0)) as Hlen.
  destruct (take_line (pred size) (c0 :: d0)) as [l r]. cbn [fst] in Hlen.
  unfold overwrite. rewrite strlen_app_nul.
  pose proof (strlen_le l) as Hs.
  assert (Ha : length (l ++ [0]) = S (length l)) by (rewrite app_length; cbn; lia).
  rewrite app_nth1 by lia.
  destruct (strlen l =? 0)%nat; [reflexivity|].
  unfold pad. rewrite skipn_overwrite by lia. rewrite (wf_tail b Hwf).
  rewrite firstn_app, Ha. replace (S (strlen l) - S (length l))%nat with 0%nat by lia.
  cbn [firstn]. rewrite app_nil_r. reflexivity.
Qed.

(* C06: what a record handler sees does not depend on earlier lines *)
Theorem next_line_no_stale : forall b1 b2 size d, wf b1 -> wf b2 -> (size <= 121)%nat ->
  next_line b1 size d = next_line b2 size d.
Proof. intros. rewrite !next_line_closed by assumption. reflexivity. Qed.

Theorem next_line_wf : forall b size d b' len r, wf b -> (size <= 121)%nat ->
  next_line b size d = Some (b', len, r) -> wf b' /\ (0 < len <= 120)%nat.
Proof.
  intros b size d b' len r Hwf Hsize H. rewrite next_line_closed in H by assumption.
  unfold next_line_spec in H. destruct d as [|c0 d0]; [discriminate|].
  pose proof (take_line_len (pred size) (c0 :: d0)) as Hlen.
  destruct (take_line (pred size) (c0 :: d0)) as [l r0]. cbn [fst] in Hlen.
  pose proof (strlen_le l) as Hs.
  destruct (strlen l =? 0)%nat eqn:E; [discriminate|].
  assert (Hb : b' = firstn (S (strlen l)) (l ++ [0]) ++ repeat 32 (120 - strlen l) ++ [0]) by congruence.
  assert (Hl : len = strlen l) by congruence. clear H. subst b' len.
  assert (Hf : length (firstn (S (strlen l)) (l ++ [0])) = S (strlen l)).
  { rewrite firstn_length, app_length. cbn [length]. lia. }
  split; [|lia]. split.
  - rewrite !app_length, repeat_length, Hf. cbn [length]. lia.
  - rewrite app_nth2 by lia. rewrite Hf. rewrite app_nth2 by (rewrite repeat_length; lia).
    rewrite repeat_length. replace (121 - S (strlen l) - (120 - strlen l))%nat with 0%nat by lia. reflexivity.
Qed.

(* whole files: the records read do not depend on what the buffer held initially *)
Theorem run_no_stale : forall fuel s b1 b2 size d, wf b1 -> wf b2 -> (size <= 121)%nat ->
  run fuel s b1 size d = run fuel s b2 size d.
Proof.
  intros fuel s b1 b2 size d H1 H2 Hs. destruct fuel; [reflexivity|]. cbn [run].
  rewrite (next_line_no_stale b1 b2) by assumption. reflexivity.
Qed.

(* ---------------------------------------------------------------- the witness against copy_line alone *)

Definition zs (s : string) : str := List.map (fun a => Z.of_N (N_of_ascii a)) (list_ascii_of_string s).
Definition nl : str := [10].

Definition seqres_long : str :=
  zs "SEQRES   1 A   13  MET LYS THR ALA TYR ILE ALA LYS GLN ARG GLN ILE SER" ++ nl.
Definition seqres_short : str := zs "SEQRES   1 B    2  ALA GLY" ++ nl.

Definition seq_counts (s : pst) : list nat := List.map (fun e => length (e_seq e)) (p_ents s).

(* the buffer left behind by the long line *)
Definition buf_after_long : str :=
  match copy_line zero_buf 121 seqres_long with Some (b, _, _) => b | None => zero_buf end.

Lemma wf_after_long : wf buf_after_long.
Proof. split; vm_compute; reflexivity. Qed.

(* copy_line alone: the 2-residue line is read as 12 residues when it follows the 13-residue line *)
Theorem copy_line_alone_stale : exists b1 b2 d, wf b1 /\ wf b2 /\
  run_raw 1 empty_pst b1 121 d <> run_raw 1 empty_pst b2 121 d.
Proof.
  exists zero_buf, buf_after_long, seqres_short. split; [exact wf_zero|]. split; [exact wf_after_long|].
  intro H. apply (f_equal seq_counts) in H. vm_compute in H. discriminate H.
Qed.

Example stale_counts :
  seq_counts (run_raw 5 empty_pst zero_buf 121 (seqres_long ++ seqres_short)) = [13; 12]%nat /\
  seq_counts (parse_records 0 (seqres_long ++ seqres_short)) = [13; 2]%nat.
Proof. vm_compute. split; reflexivity. Qed.

(* ---------------------------------------------------------------- padding / line ends *)
(* A line given with its trailing blanks, without them, or with CR-LF fills the buffer with the same bytes up to the
   replacement of blanks by line terminators (LF, CR, NUL): norm maps the three terminators to a blank. *)
Definition norm (b : str) : str := List.map (fun c => if is_term c then 32 else c) b.
Definition plain (c : str) : Prop := Forall (fun x => is_term x = false) c.

Lemma take_line_plain : forall c m e rest, plain c -> (length c < m)%nat -> e = 10 ->
  take_line m (c ++ e :: rest) = (c ++ [e], rest).
Proof.
  induction c as [|x c IH]; intros m e rest Hp Hm He; subst e.
  - destruct m; [cbn in Hm; lia|]. reflexivity.
  - destruct m; [cbn in Hm; lia|]. inversion Hp; subst. cbn [app take_line].
    replace (x =? 10) with false by (unfold is_term in H1; lia).
    rewrite (IH m 10 rest) by (try assumption; try reflexivity; cbn in Hm; lia). reflexivity.
Qed.

Lemma strlen_plain : forall c x, plain c -> strlen (c ++ 10 :: x) = S (length c + strlen x)%nat /\ True.
Proof.
  induction c as [|y c IH]; intros x Hp; [cbn; split; reflexivity|]. inversion Hp; subst.
  cbn [app strlen length]. replace (y =? 0) with false by (unfold is_term in H1; lia).
  destruct (IH x H2) as [-> _]. split; reflexivity.
Qed.

Lemma norm_app : forall a b, norm (a ++ b) = norm a ++ norm b.
Proof. intros. unfold norm. apply map_app. Qed.
Lemma norm_plain : forall c, plain c -> norm c = c.
Proof.
  induction c as [|x c IH]; intros Hp; [reflexivity|]. inversion Hp; subst. cbn [norm List.map].
  rewrite H1. f_equal. apply IH. assumption.
Qed.
Lemma norm_blanks : forall k, norm (repeat 32 k) = repeat 32 k.
Proof. induction k; [reflexivity|]. cbn [repeat norm List.map]. f_equal. exact IHk. Qed.
Lemma plain_blanks : forall k, plain (repeat 32 k).
Proof. induction k; constructor; [reflexivity|assumption]. Qed.

(* the buffer after reading a plain line body followed by LF, normalised *)
Lemma buffer_of_plain_line : forall c rest size buf b len r, wf buf -> (size <= 121)%nat -> plain c ->
  (S (length c) < size)%nat ->
  next_line buf size (c ++ 10 :: rest) = Some (b, len, r) ->
  norm b = c ++ repeat 32 (122 - length c) /\ len = S (length c) /\ r = rest.
Proof.
  intros c rest size buf b len r Hwf Hs Hp Hlen H.
  rewrite next_line_closed in H by assumption. unfold next_line_spec in H.
  destruct (c ++ 10 :: rest) as [|z0 d0] eqn:Ed; [destruct c; discriminate|]. rewrite <- Ed in H. clear Ed z0 d0.
  rewrite (take_line_plain c (pred size) 10 rest) in H by (try assumption; try reflexivity; lia).
  assert (Hl : strlen (c ++ [10]) = S (length c)).
  { destruct (strlen_plain c [] Hp) as [E _]. rewrite E. cbn [strlen]. lia. }
  rewrite Hl in H. cbn [Nat.eqb] in H.
  assert (Hlast : nth (pred (S (length c))) ((c ++ [10]) ++ [0]) 0 = 10).
  { cbn [pred]. rewrite <- app_assoc. rewrite app_nth2 by lia. rewrite Nat.sub_diag. reflexivity. }
  rewrite Hlast in H. change (10 =? 10) with true in H. cbn [negb] in H. rewrite Bool.andb_false_r in H.
  assert (Hb : b = firstn (S (S (length c))) ((c ++ [10]) ++ [0]) ++ repeat 32 (120 - S (length c)) ++ [0]) by congruence.
  assert (Hl2 : len = S (length c)) by congruence. assert (Hr : r = rest) by congruence.
  split; [|split; assumption]. subst b.
  rewrite firstn_all2 by (rewrite !app_length; cbn [length]; lia).
  rewrite !norm_app, norm_plain by assumption. rewrite norm_blanks. cbn [norm List.map is_term Z.eqb orb].
  rewrite <- !app_assoc. f_equal. cbn [app].
  replace (122 - length c)%nat with (S (S (120 - S (length c) + 1)))%nat by lia.
  cbn [repeat]. f_equal. f_equal. rewrite repeat_app. reflexivity.
Qed.

(* with trailing blanks / CR before the LF the normalised buffer is that of the stripped line *)
Theorem padding_same_buffer : forall c k cr rest size buf1 buf2 b1 l1 r1 b2 l2 r2,
  wf buf1 -> wf buf2 -> (size <= 121)%nat -> plain c -> (cr = [] \/ cr = [13]) ->
  (S (length c + k + length cr) < size)%nat ->
  next_line buf1 size (c ++ 10 :: rest) = Some (b1, l1, r1) ->
  next_line buf2 size ((c ++ repeat 32 k ++ cr) ++ 10 :: rest) = Some (b2, l2, r2) ->
  norm b1 = norm b2 /\ r1 = r2.
Proof.
  intros c k cr rest size buf1 buf2 b1 l1 r1 b2 l2 r2 Hw1 Hw2 Hs Hp Hcr Hlen H1 H2.
  destruct (buffer_of_plain_line c rest size buf1 b1 l1 r1 Hw1 Hs Hp ltac:(lia) H1) as (E1 & _ & R1).
  (* the padded body is not plain when it holds CR; normalise by hand *)
  rewrite next_line_closed in H2 by assumption. unfold next_line_spec in H2.
  set (body := c ++ repeat 32 k ++ cr) in *.
  destruct (body ++ 10 :: rest) as [|z0 d0] eqn:Ed; [destruct body; discriminate|]. rewrite <- Ed in H2. clear Ed z0 d0.
  assert (Hbody_len : length body = (length c + k + length cr)%nat)
    by (unfold body; rewrite !app_length, repeat_length; lia).
  assert (Hnolf : Forall (fun x => (x =? 10) = false /\ (x =? 0) = false) body).
  { unfold body. apply Forall_app; split; [|apply Forall_app; split].
    - eapply Forall_impl; [|exact Hp]. cbn. intros a Ha. unfold is_term in Ha. lia.
    - clear. induction k; constructor; [split; reflexivity|assumption].
    - destruct Hcr as [->| ->]; repeat constructor. }
  assert (Htl : forall m, (length body < m)%nat -> take_line m (body ++ 10 :: rest) = (body ++ [10], rest)).
  { clear - Hnolf. induction body as [|x t IH]; intros m Hm.
    - destruct m; [cbn in Hm; lia|]. reflexivity.
    - destruct m; [cbn in Hm; lia|]. inversion Hnolf; subst. destruct H1 as [Hx _]. cbn [app take_line].
      rewrite Hx. rewrite IH by (try assumption; cbn in Hm; lia). reflexivity. }
  assert (Hsl : strlen ((body ++ [10]) ++ [0]) = S (length body) /\ strlen (body ++ [10]) = S (length body)).
  { clear - Hnolf. induction body as [|x t IH]; [split; reflexivity|]. inversion Hnolf; subst.
    destruct H1 as [_ Hx]. cbn [app strlen length]. rewrite Hx. destruct (IH H2) as [-> ->]. split; reflexivity. }
  rewrite Htl in H2 by lia. destruct Hsl as [_ Hsl]. rewrite Hsl in H2. cbn [Nat.eqb] in H2.
  assert (Hlast : nth (pred (S (length body))) ((body ++ [10]) ++ [0]) 0 = 10).
  { cbn [pred]. rewrite <- app_assoc. rewrite app_nth2 by lia. rewrite Nat.sub_diag. reflexivity. }
  rewrite Hlast in H2. change (10 =? 10) with true in H2. cbn [negb] in H2. rewrite Bool.andb_false_r in H2.
  assert (Hb : b2 = firstn (S (S (length body))) ((body ++ [10]) ++ [0]) ++ repeat 32 (120 - S (length body)) ++ [0]) by congruence.
  assert (R2 : r2 = rest) by congruence.
  split; [|congruence]. rewrite E1. subst b2.
  rewrite firstn_all2 by (rewrite !app_length; cbn [length]; lia).
  rewrite Hbody_len. unfold body. rewrite !norm_app, norm_plain by assumption. rewrite !norm_blanks.
  assert (Hncr : norm cr = repeat 32 (length cr)) by (destruct Hcr as [->| ->]; reflexivity).
  rewrite Hncr. cbn [norm List.map is_term Z.eqb orb].
  rewrite <- !app_assoc. f_equal. cbn [app].
  replace (122 - length c)%nat with (k + (length cr + S (S (120 - S (length c + k + length cr) + 1))))%nat by lia.
  rewrite !repeat_app. cbn [repeat]. rewrite ?repeat_app. cbn [repeat]. change (is_term 10) with true. cbv iota.
  rewrite <- ?app_assoc. reflexivity.
Qed.
