(* Fixed-column integer codecs of the PDB reader/writer, as coded in gemmi:
   src/pdb.cpp      read_int (= string_to_int(p, false, n), atox.hpp), read_base36<N> (strtol base 36),
                    read_serial, read_seq_id
   src/to_pdb.cpp   base36_encode, encode_serial_in_hybrid36, write_seq_id, the "%5s" field
   Strings are lists of byte codes 0..255 (Base/Str.v); reading past the end of a list yields NUL.
   C int overflow is not modelled (fields have at most 10 digits; callers keep values below 2^31). *)
From GV Require Import Base.Str.
Local Open Scope Z_scope.

(* `c < 'A'` for a (signed) char holding byte c *)
Definition lt_A (c : Z) : bool := (c <? 65) || (128 <=? c).

(* while (i < length && is_space(p[i])) ++i;   returns the remaining length and the rest *)
Fixpoint skip_sp (n : nat) (s : str) : nat * str :=
  match n with
  | O => (O, s)
  | S n' => if is_cspace (cur s) then skip_sp n' (adv s) else (n, s)
  end.

(* for (; i < length && is_digit(p[i]); ++i) n = n * 10 + digit *)
Fixpoint digs (n : nat) (acc : Z) (s : str) : Z :=
  match n with
  | O => acc
  | S n' => if is_digit (cur s) then digs n' (acc * 10 + (cur s - 48)) (adv s) else acc
  end.

(* string_to_int(p, false, len), len > 0. The sign is looked at without checking i < length (as coded);
   after the sign i may exceed length, then no digit is read. *)
Definition read_int (len : nat) (s : str) : Z :=
  let '(m, s1) := skip_sp len s in
  if cur s1 =? 45 then - digs (pred m) 0 (adv s1)
  else if cur s1 =? 43 then digs (pred m) 0 (adv s1)
  else digs m 0 s1.

(* value of a base-36 digit, -1 for any other byte *)
Definition dig36 (c : Z) : Z :=
  if is_digit c then c - 48
  else if (65 <=? c) && (c <=? 90) then c - 55
  else if (97 <=? c) && (c <=? 122) then c - 87
  else -1.

Fixpoint acc36 (acc : Z) (s : str) : Z :=
  match s with
  | c :: t => let d := dig36 c in if d <? 0 then acc else acc36 (acc * 36 + d) t
  | [] => acc
  end.

(* strtol(zstr, nullptr, 36): leading white space, optional sign, digits 0-9a-zA-Z; 0 when there is no digit.
   (No overflow for at most 5 digits.) *)
Definition strtol36 (s : str) : Z :=
  let s1 := skip_while is_cspace s in
  match s1 with
  | 45 :: t => - acc36 0 t
  | 43 :: t => acc36 0 t
  | _ => acc36 0 s1
  end.

(* read_base36<N>: the N bytes are copied into a NUL-terminated array first *)
Definition read_base36 (n : nat) (s : str) : Z := strtol36 (firstn n s).

Definition read_serial (s : str) : Z :=
  if lt_A (cur s) then read_int 5 s else read_base36 5 s - 16796160 + 100000.

Definition nth_c (k : nat) (s : str) : Z := cur (skipn k s).

(* the loop `for (int i = 4; i != 0; --i, ++str) if (!is_space( *str)) { num = read_int(str, i); break; }` *)
Fixpoint seq_num_loop (i : nat) (s : str) : option Z :=
  match i with
  | O => None
  | S i' => if is_cspace (cur s) then seq_num_loop i' (adv s) else Some (read_int i s)
  end.

(* SeqId: num (None = not set), icode (default ' ') *)
Definition read_seq_id (s : str) : option Z * Z :=
  let c4 := nth_c 4 s in
  let icode := if (c4 =? 13) || (c4 =? 10) then 32 else c4 in
  let num := if lt_A (cur s) then seq_num_loop 4 s
             else Some (read_base36 4 s - 466560 + 10000) in
  (num, icode).

(* ---------------------------------------------------------------- writers *)

Definition b36char (d : Z) : Z := if d <? 10 then 48 + d else 55 + d.

(* do { buffer[--width] = base36[value % 36]; value /= 36; } while (value != 0 && width != 0);
   most significant digit first *)
Fixpoint b36_digits (w : nat) (v : Z) : str :=
  match w with
  | O => []
  | S w' => let d := b36char (Z.rem v 36) in
            let v' := Z.quot v 36 in
            if v' =? 0 then [d] else b36_digits w' v' ++ [d]
  end.

(* right-justify in a field of width w (never truncates): "%5s", and the blank fill of base36_encode *)
Definition rjust (w : nat) (s : str) : str := repeat 32 (w - length s) ++ s.

Definition base36_encode (w : nat) (v : Z) : str := rjust w (b36_digits w v).

(* decimal digits, most significant first; fuel bounds the number of digits *)
Fixpoint ds (fuel : nat) (n : Z) : str :=
  match fuel with
  | O => []
  | S f => if n <? 10 then [48 + n] else ds f (n / 10) ++ [48 + n mod 10]
  end.

(* "%d" *)
Definition print_dec (n : Z) : str := if n <? 0 then 45 :: ds 11 (- n) else ds 11 n.

(* to_chars_z into 8 bytes (7 characters at most) / base36_encode(.., 5, serial + 10*36^4 - 100000) *)
Definition encode_serial (n : Z) : str :=
  if n <? 100000 then firstn 7 (print_dec n) else base36_encode 5 (n + 16696160).

(* to_chars_z(ptr, ptr + 5, num): 4 characters at most; then the insertion code *)
Definition write_seq_id (num icode : Z) : str :=
  (if (-1000 <? num) && (num <? 10000) then firstn 4 (print_dec num)
   else base36_encode 4 (num + 456560)) ++ [icode].

Definition field5 (s : str) : str := rjust 5 s.

(* ---------------------------------------------------------------- other single-field readers *)

(* read_charge(digit, sign): None = the "Wrong format for charge" failure *)
Definition read_charge (digit sign : Z) : option Z :=
  if (sign =? 32) && (digit =? 32) then Some 0 else
  let '(digit, sign) := if is_digit sign then (sign, digit) else (digit, sign) in
  if is_digit digit then
    if negb (sign =? 43) && negb (sign =? 45) && negb (sign =? 0) && negb (is_cspace sign) then None
    else Some ((digit - 48) * (if sign =? 45 then -1 else 1))
  else Some 0.

(* the two charge columns written by write_chain_atoms *)
Definition write_charge (q : Z) : Z * Z :=
  if q =? 0 then (32, 32) else if 0 <? q then (48 + q, 43) else (48 - q, 45).

Definition read_altloc (c : Z) : Z := if c =? 32 then 0 else c.
(* a.altloc ? std::toupper(a.altloc) : ' ' *)
Definition write_altloc (a : Z) : Z := if a =? 0 then 32 else if (97 <=? a) && (a <=? 122) then a - 32 else a.

(* read_string(p, n): left trim, cut at CR/LF/NUL, right trim *)
Fixpoint ltrim_n (n : nat) (s : str) : nat * str :=
  match n with
  | O => (O, s)
  | S n' => if is_cspace (cur s) then ltrim_n n' (adv s) else (n, s)
  end.
Definition is_term (c : Z) : bool := (c =? 10) || (c =? 13) || (c =? 0).
Fixpoint upto_term (n : nat) (s : str) : str :=
  match n with
  | O => []
  | S n' => if is_term (cur s) then [] else cur s :: upto_term n' (adv s)
  end.
Fixpoint rtrim (s : str) : str :=
  match s with
  | [] => []
  | c :: t => match rtrim t with
              | [] => if is_cspace c then [] else [c]
              | r => c :: r
              end
  end.
Definition read_string (n : nat) (s : str) : str :=
  let '(m, s1) := ltrim_n n s in rtrim (upto_term m s1).
