(* The HELIX record: the line produced by the format string of src/to_pdb.cpp (regenerated into Pdb/AtomFmt_gen.v),
   with the blanking of columns 72-76 when the length is not given, read by the record handler of Pdb/Records.v
   (do_helix, the model of the HELIX branch of read_pdb_from_stream). *)
From Coq Require Import Lia.
From GV Require Import Base.Str Pdb.Hy36 Pdb.Hy36Proofs Pdb.Records Pdb.AtomLine Pdb.AtomLineProofs Pdb.AtomFmt_gen Pdb.AtomFmt.
Local Open Scope Z_scope.

Record hx := mkHx { x_serial : Z; x_res1 : str; x_ch1 : str; x_n1 : Z; x_ic1 : Z;
                    x_res2 : str; x_ch2 : str; x_n2 : Z; x_ic2 : Z; x_class : Z; x_len : Z }.

Definition helix_args (h : hx) : list farg :=
  [AInt (x_serial h); AInt (x_serial h); AStr (x_res1 h); AStr (x_ch1 h); AStr (write_seq_id (x_n1 h) (x_ic1 h));
   AStr (x_res2 h); AStr (x_ch2 h); AStr (write_seq_id (x_n2 h) (x_ic2 h)); AInt (x_class h); AInt (x_len h)].

(* std::memset(buf+71, ' ', 5) when the length is negative; buf[80] = '\n' *)
Definition blank_71_75 (l : str) : str := firstn 71 l ++ repeat 32 5 ++ skipn 76 l.
Definition helix_line (h : hx) : option str :=
  match interp 100 helix_fmt (helix_args h) with
  | Some l => let s := concat l in Some (if x_len h <? 0 then blank_71_75 s else s)
  | None => None
  end.

(* ---- reading numbers ---- *)
Lemma digs_more : forall l k acc rest, alldig l -> is_digit (cur rest) = false ->
  digs (length l + k) acc (l ++ rest) = fold_left (fun a c => a * 10 + (c - 48)) l acc.
Proof.
  induction l as [|c l IH]; intros k acc rest H Hr.
  - cbn [length app fold_left Nat.add]. destruct k; [reflexivity|]. cbn [digs]. rewrite Hr. reflexivity.
  - inversion H; subst. cbn [length app Nat.add digs cur adv fold_left]. rewrite H2. apply IH; assumption.
Qed.

Lemma read_int_rjust_more : forall w k l rest, alldig l -> l <> [] -> (length l <= w)%nat ->
  is_digit (cur rest) = false -> read_int (w + k) (rjust w l ++ rest) = dv l.
Proof.
  intros w k l rest Hd Hne Hlen Hr. unfold read_int, rjust.
  replace (w + k)%nat with ((w - length l) + (length l + k))%nat by lia.
  rewrite <- app_assoc, skip_sp_blanks.
  destruct l as [|c l]; [congruence|]. inversion Hd; subst.
  destruct (digit_not_space c H1) as (Hs & H45 & H43 & _).
  rewrite skip_sp_stop by (cbn; exact Hs).
  cbn [cur app]. replace (c =? 45) with false by lia. replace (c =? 43) with false by lia.
  change (c :: l ++ rest) with ((c :: l) ++ rest). rewrite digs_more by assumption. reflexivity.
Qed.

Lemma print_dec_nonneg : forall n k, (0 < k <= 11)%nat -> 0 <= n < 10 ^ Z.of_nat k ->
  alldig (print_dec n) /\ print_dec n <> [] /\ (length (print_dec n) <= k)%nat /\ dv (print_dec n) = n.
Proof.
  intros n k Hk Hn. unfold print_dec. replace (n <? 0) with false by lia.
  destruct (ds_ok 11 k n) as (H1 & H2 & H3 & H4); [lia|exact Hn|]. repeat split; assumption.
Qed.

Lemma digits_tidy : forall l, alldig l -> l <> [] -> tidy l.
Proof.
  intros l H Hne. split.
  - eapply Forall_impl; [|exact H]. intros c Hc. unfold is_digit in Hc. unfold is_term. lia.
  - right. destruct l as [|c t]; [congruence|]. split.
    + inversion H; subst. apply digit_not_space. assumption.
    + assert (In (last (c :: t) 0) (c :: t)).
      { clear. generalize c. induction t as [|d u IH]; intros c0; [left; reflexivity|]. right. apply (IH d). }
      unfold alldig in H. rewrite Forall_forall in H. apply digit_not_space. apply H. assumption.
Qed.

Record fits_hx (h : hx) : Prop := mkFitsHx {
  fx_serial : 0 <= x_serial h <= 9999;
  fx_res1 : tidy (x_res1 h) /\ (length (x_res1 h) <= 3)%nat;
  fx_ch1 : tidy (x_ch1 h) /\ (length (x_ch1 h) <= 2)%nat;
  fx_n1 : -999 <= x_n1 h <= 1223055;
  fx_ic1 : x_ic1 h <> 13 /\ x_ic1 h <> 10;
  fx_res2 : tidy (x_res2 h) /\ (length (x_res2 h) <= 3)%nat;
  fx_ch2 : tidy (x_ch2 h) /\ (length (x_ch2 h) <= 2)%nat;
  fx_n2 : -999 <= x_n2 h <= 1223055;
  fx_ic2 : x_ic2 h <> 13 /\ x_ic2 h <> 10;
  fx_class : 0 <= x_class h <= 99;
  fx_len : -9999 <= x_len h <= 9999 }.

Lemma rjust_split : forall w k s, (length s <= w)%nat -> rjust (k + w) s = repeat 32 k ++ rjust w s.
Proof.
  intros w k s H. unfold rjust. replace (k + w - length s)%nat with (k + (w - length s))%nat by lia.
  rewrite repeat_app, <- app_assoc. reflexivity.
Qed.

Lemma print_dec_neg_len : forall n, -9999 <= n < 0 -> (length (print_dec n) <= 5)%nat.
Proof.
  intros n H. unfold print_dec. replace (n <? 0) with true by lia.
  destruct (ds_ok 11 4 (- n)) as (_ & _ & H3 & _); [lia|cbn; lia|]. cbn [length]. lia.
Qed.

(* the line, whatever the sign of the length: 41 leading columns, 31 blanks, a 4-column field, 4 blanks, newline *)
Lemma helix_line_form : forall h, fits_hx h ->
  helix_line h = Some (concat
    [[72]; [69]; [76]; [73]; [88]; [32]; rjust 4 (print_dec (x_serial h)); rjust 4 (print_dec (x_serial h)); [32];
     apply_s false 3 (Some 3%nat) (x_res1 h); apply_s false 2 None (x_ch1 h); [32];
     apply_s false 5 None (write_seq_id (x_n1 h) (x_ic1 h)); [32];
     apply_s false 3 (Some 3%nat) (x_res2 h); apply_s false 2 None (x_ch2 h); [32];
     apply_s false 5 None (write_seq_id (x_n2 h) (x_ic2 h)); rjust 2 (print_dec (x_class h)); [32];
     repeat 32 31; (if x_len h <? 0 then repeat 32 4 else rjust 4 (print_dec (x_len h)));
     [32]; [32]; [32]; [32]; [10]]).
Proof.
  intros h F. destruct F.
  unfold helix_line.
  assert (E : interp 100 helix_fmt (helix_args h) = Some
    [[72]; [69]; [76]; [73]; [88]; [32]; rjust 4 (print_dec (x_serial h)); rjust 4 (print_dec (x_serial h)); [32];
     apply_s false 3 (Some 3%nat) (x_res1 h); apply_s false 2 None (x_ch1 h); [32];
     apply_s false 5 None (write_seq_id (x_n1 h) (x_ic1 h)); [32];
     apply_s false 3 (Some 3%nat) (x_res2 h); apply_s false 2 None (x_ch2 h); [32];
     apply_s false 5 None (write_seq_id (x_n2 h) (x_ic2 h)); rjust 2 (print_dec (x_class h)); [32];
     rjust 35 (print_dec (x_len h)); [32]; [32]; [32]; [32]; [10]]) by reflexivity.
  rewrite E. f_equal.
  set (S4 := rjust 4 (print_dec (x_serial h))).
  set (R1 := apply_s false 3 (Some 3%nat) (x_res1 h)). set (C1 := apply_s false 2 None (x_ch1 h)).
  set (Q1 := apply_s false 5 None (write_seq_id (x_n1 h) (x_ic1 h))).
  set (R2 := apply_s false 3 (Some 3%nat) (x_res2 h)). set (C2 := apply_s false 2 None (x_ch2 h)).
  set (Q2 := apply_s false 5 None (write_seq_id (x_n2 h) (x_ic2 h))).
  set (CL := rjust 2 (print_dec (x_class h))).
  assert (LS4 : length S4 = 4%nat).
  { unfold S4, rjust. destruct (print_dec_nonneg (x_serial h) 4) as (_ & _ & L & _); [lia|cbn; lia|].
    rewrite app_length, repeat_length. lia. }
  assert (LR1 : length R1 = 3%nat) by (unfold R1, apply_s; rewrite app_length, repeat_length, firstn_length; destruct fx_res3; lia).
  assert (LC1 : length C1 = 2%nat) by (unfold C1, apply_s; rewrite app_length, repeat_length; destruct fx_ch3; lia).
  assert (LQ1 : length Q1 = 5%nat) by (apply (field5_seqid_length _ (x_ic1 h) fx_n3)).
  assert (LR2 : length R2 = 3%nat) by (unfold R2, apply_s; rewrite app_length, repeat_length, firstn_length; destruct fx_res4; lia).
  assert (LC2 : length C2 = 2%nat) by (unfold C2, apply_s; rewrite app_length, repeat_length; destruct fx_ch4; lia).
  assert (LQ2 : length Q2 = 5%nat) by (apply (field5_seqid_length _ (x_ic2 h) fx_n4)).
  assert (LCL : length CL = 2%nat).
  { unfold CL, rjust. destruct (print_dec_nonneg (x_class h) 2) as (_ & _ & L & _); [lia|cbn; lia|].
    rewrite app_length, repeat_length. lia. }
  destruct (x_len h <? 0) eqn:N.
  - (* negative: columns 72-76 are blanked *)
    apply Z.ltb_lt in N.
    pose proof (print_dec_neg_len (x_len h) ltac:(lia)) as L5.
    change 35%nat with (30 + 5)%nat. rewrite (rjust_split 5 30) by exact L5.
    unfold blank_71_75. cbn [concat]. rewrite !app_nil_r.
    set (X5 := rjust 5 (print_dec (x_len h))).
    assert (LX5 : length X5 = 5%nat) by (unfold X5, rjust; rewrite app_length, repeat_length; lia).
    set (PRE := [72] ++ [69] ++ [76] ++ [73] ++ [88] ++ [32] ++ S4 ++ S4 ++ [32] ++ R1 ++ C1 ++ [32] ++ Q1 ++ [32] ++ R2 ++ C2 ++ [32] ++ Q2 ++ CL ++ [32]).
    assert (LPRE : length PRE = 41%nat).
    { unfold PRE. rewrite !app_length. cbn [length]. lia. }
    match goal with |- firstn 71 ?s ++ _ ++ skipn 76 ?s = ?r =>
      replace s with ((PRE ++ repeat 32 30) ++ X5 ++ [32; 32; 32; 32; 10]) by (unfold PRE; rewrite <- !app_assoc; reflexivity);
      replace r with ((PRE ++ repeat 32 30) ++ repeat 32 5 ++ [32; 32; 32; 32; 10])
        by (unfold PRE; rewrite <- !app_assoc; cbn [repeat app]; reflexivity) end.
    assert (L71 : length (PRE ++ repeat 32 30) = 71%nat) by (rewrite app_length, repeat_length; lia).
    rewrite firstn_app, <- L71, firstn_all, Nat.sub_diag. cbn [firstn]. rewrite app_nil_r.
    set (L0 := PRE ++ repeat 32 30) in *.
    rewrite skipn_app, (skipn_all2 L0) by lia.
    replace (S (S (S (S (S (length L0))))) - length L0)%nat with 5%nat by lia. cbn [app].
    rewrite skipn_app, <- LX5, skipn_all, Nat.sub_diag. cbn [skipn app]. reflexivity.
  - apply Z.ltb_ge in N.
    destruct (print_dec_nonneg (x_len h) 4) as (_ & _ & L4 & _); [lia|cbn; lia|].
    change 35%nat with (31 + 4)%nat. rewrite (rjust_split 4 31) by exact L4.
    cbn [concat]. rewrite !app_nil_r, <- !app_assoc. reflexivity.
Qed.

(* a field cut short by a line terminator: read_string stops there *)
Lemma ltrim_n_blanks : forall k m s, ltrim_n (k + m) (repeat 32 k ++ s) = ltrim_n m s.
Proof. induction k; intros m s; [reflexivity|]. cbn [repeat app Nat.add ltrim_n cur adv]. apply IHk. Qed.
Lemma upto_term_cut : forall l m c0 rest, noterm l -> is_term c0 = true ->
  upto_term (length l + S m) (l ++ c0 :: rest) = l.
Proof.
  induction l as [|c t IH]; intros m c0 rest H Hc.
  - cbn [length app Nat.add upto_term cur]. rewrite Hc. reflexivity.
  - inversion H; subst. cbn [length app Nat.add upto_term cur adv]. rewrite H2. f_equal. apply IH; assumption.
Qed.
Lemma read_padded_cut : forall s kl m c0 rest, tidy s -> s <> [] -> is_term c0 = true ->
  read_string (kl + length s + S m) (repeat 32 kl ++ s ++ c0 :: rest) = s.
Proof.
  intros s kl m c0 rest T Hne Hc. unfold read_string.
  replace (kl + length s + S m)%nat with (kl + (length s + S m))%nat by lia.
  rewrite ltrim_n_blanks.
  destruct T as [N [E|[Hh Hl]]]; [congruence|].
  destruct s as [|c t]; [congruence|]. cbn in Hh.
  cbn [app length Nat.add ltrim_n cur]. rewrite Hh.
  change (c :: t ++ c0 :: rest) with ((c :: t) ++ c0 :: rest).
  change (S (length t + S m)) with (length (c :: t) + S m)%nat.
  rewrite upto_term_cut by assumption. apply rtrim_id; [discriminate|exact Hl].
Qed.

(* columns 1-40: everything up to the class *)
Definition helix_head (h : hx) : list str :=
  [[72]; [69]; [76]; [73]; [88]; [32]; rjust 4 (print_dec (x_serial h)); rjust 4 (print_dec (x_serial h)); [32];
   apply_s false 3 (Some 3%nat) (x_res1 h); apply_s false 2 None (x_ch1 h); [32];
   apply_s false 5 None (write_seq_id (x_n1 h) (x_ic1 h)); [32];
   apply_s false 3 (Some 3%nat) (x_res2 h); apply_s false 2 None (x_ch2 h); [32];
   apply_s false 5 None (write_seq_id (x_n2 h) (x_ic2 h)); rjust 2 (print_dec (x_class h))].

Definition helix_result (s : pst) (h : hx) (hlen : Z) : pst :=
  mkPst (p_ents s) (p_mod s)
        (p_hel s ++ [mkHelix (mkAddr (x_ch1 h) (x_res1 h) (Some (x_n1 h), x_ic1 h) [])
                             (mkAddr (x_ch2 h) (x_res2 h) (Some (x_n2 h), x_ic2 h) [])
                             (if (1 <=? x_class h) && (x_class h <=? 10) then x_class h else 0) hlen])
        (p_sheets s) (p_conect s).

Lemma helix_head_length : forall h, fits_hx h -> length (concat (helix_head h)) = 40%nat.
Proof.
  intros h F. destruct F.
  destruct (print_dec_nonneg (x_serial h) 4) as (_ & _ & LS & _); [lia|cbn; lia|].
  destruct (print_dec_nonneg (x_class h) 2) as (_ & _ & LC & _); [lia|cbn; lia|].
  unfold helix_head. cbn [concat]. rewrite !app_length. cbn [length].
  pose proof (field5_seqid_length _ (x_ic1 h) fx_n3) as Q1. pose proof (field5_seqid_length _ (x_ic2 h) fx_n4) as Q2.
  unfold field5 in Q1, Q2. unfold apply_s. rewrite !app_length, !repeat_length, !firstn_length.
  unfold rjust in *. rewrite !app_length, !repeat_length in *.
  destruct fx_res3, fx_ch3, fx_res4, fx_ch4. lia.
Qed.

(* whatever follows column 40 and whatever the line length (>= 40): addresses and class come from columns 1-40 alone *)
Theorem helix_head_read : forall h, fits_hx h -> forall s rest len, (40 <= len)%nat ->
  do_helix s (concat (helix_head h) ++ rest) len =
  helix_result s h (if (72 <? len)%nat && nonempty (rs 5 72 (concat (helix_head h) ++ rest))
                    then ri 5 72 (concat (helix_head h) ++ rest) else -1).
Proof.
  intros h F s rest len Hlen. destruct F.
  destruct fx_res3 as [Tr1 Lr1]. destruct fx_ch3 as [Tc1 Lc1]. destruct fx_res4 as [Tr2 Lr2]. destruct fx_ch4 as [Tc2 Lc2].
  destruct fx_ic3 as [I1 I1']. destruct fx_ic4 as [I2 I2'].
  unfold helix_head.
  set (S4 := rjust 4 (print_dec (x_serial h))).
  set (R1 := apply_s false 3 (Some 3%nat) (x_res1 h)). set (C1 := apply_s false 2 None (x_ch1 h)).
  set (Q1 := apply_s false 5 None (write_seq_id (x_n1 h) (x_ic1 h))).
  set (R2 := apply_s false 3 (Some 3%nat) (x_res2 h)). set (C2 := apply_s false 2 None (x_ch2 h)).
  set (Q2 := apply_s false 5 None (write_seq_id (x_n2 h) (x_ic2 h))).
  set (CL := rjust 2 (print_dec (x_class h))).
  destruct (print_dec_nonneg (x_serial h) 4) as (_ & _ & LS & _); [lia|cbn; lia|].
  destruct (print_dec_nonneg (x_class h) 2) as (DC & NC & LC & VC); [lia|cbn; lia|].
  assert (LS4 : length S4 = 4%nat) by (unfold S4, rjust; rewrite app_length, repeat_length; lia).
  assert (LR1 : length R1 = 3%nat) by (unfold R1, apply_s; rewrite app_length, repeat_length, firstn_length; lia).
  assert (LC1 : length C1 = 2%nat) by (unfold C1, apply_s; rewrite app_length, repeat_length; lia).
  assert (LQ1 : length Q1 = 5%nat) by (apply (field5_seqid_length _ (x_ic1 h) fx_n3)).
  assert (LR2 : length R2 = 3%nat) by (unfold R2, apply_s; rewrite app_length, repeat_length, firstn_length; lia).
  assert (LC2 : length C2 = 2%nat) by (unfold C2, apply_s; rewrite app_length, repeat_length; lia).
  assert (LQ2 : length Q2 = 5%nat) by (apply (field5_seqid_length _ (x_ic2 h) fx_n4)).
  set (all := [[72]; [69]; [76]; [73]; [88]; [32]; S4; S4; [32]; R1; C1; [32]; Q1; [32]; R2; C2; [32]; Q2; CL]).
  assert (A : forall (pre post : list str) k, all = pre ++ post -> length (concat pre) = k ->
              Records.at_ k (concat all ++ rest) = concat post ++ rest).
  { intros pre post k E0 Hk. unfold Records.at_. rewrite E0, <- Hk. apply skipn_pieces. }
  assert (A15 : Records.at_ 15 (concat all ++ rest) = concat [R1; C1; [32]; Q1; [32]; R2; C2; [32]; Q2; CL] ++ rest).
  { apply (A [[72]; [69]; [76]; [73]; [88]; [32]; S4; S4; [32]]); [reflexivity|]. piece_len. lia. }
  assert (A18 : Records.at_ 18 (concat all ++ rest) = concat [C1; [32]; Q1; [32]; R2; C2; [32]; Q2; CL] ++ rest).
  { apply (A [[72]; [69]; [76]; [73]; [88]; [32]; S4; S4; [32]; R1]); [reflexivity|]. piece_len. lia. }
  assert (A21 : Records.at_ 21 (concat all ++ rest) = concat [Q1; [32]; R2; C2; [32]; Q2; CL] ++ rest).
  { apply (A [[72]; [69]; [76]; [73]; [88]; [32]; S4; S4; [32]; R1; C1; [32]]); [reflexivity|]. piece_len. lia. }
  assert (A27 : Records.at_ 27 (concat all ++ rest) = concat [R2; C2; [32]; Q2; CL] ++ rest).
  { apply (A [[72]; [69]; [76]; [73]; [88]; [32]; S4; S4; [32]; R1; C1; [32]; Q1; [32]]); [reflexivity|]. piece_len. lia. }
  assert (A30 : Records.at_ 30 (concat all ++ rest) = concat [C2; [32]; Q2; CL] ++ rest).
  { apply (A [[72]; [69]; [76]; [73]; [88]; [32]; S4; S4; [32]; R1; C1; [32]; Q1; [32]; R2]); [reflexivity|]. piece_len. lia. }
  assert (A33 : Records.at_ 33 (concat all ++ rest) = concat [Q2; CL] ++ rest).
  { apply (A [[72]; [69]; [76]; [73]; [88]; [32]; S4; S4; [32]; R1; C1; [32]; Q1; [32]; R2; C2; [32]]); [reflexivity|]. piece_len. lia. }
  assert (A38 : Records.at_ 38 (concat all ++ rest) = concat [CL] ++ rest).
  { apply (A [[72]; [69]; [76]; [73]; [88]; [32]; S4; S4; [32]; R1; C1; [32]; Q1; [32]; R2; C2; [32]; Q2]); [reflexivity|]. piece_len. lia. }
  assert (E1 : read_string 2 (concat [C1; [32]; Q1; [32]; R2; C2; [32]; Q2; CL] ++ rest) = x_ch1 h).
  { cbn [concat]. rewrite <- app_assoc. unfold C1, apply_s.
    replace 2%nat with ((2 - length (x_ch1 h)) + length (x_ch1 h) + 0)%nat at 1 by lia.
    replace (repeat 32 (2 - length (x_ch1 h)) ++ x_ch1 h) with (repeat 32 (2 - length (x_ch1 h)) ++ x_ch1 h ++ repeat 32 0)
      by (cbn [repeat]; rewrite app_nil_r; reflexivity).
    apply read_padded. exact Tc1. }
  assert (E2 : read_string 3 (concat [R1; C1; [32]; Q1; [32]; R2; C2; [32]; Q2; CL] ++ rest) = x_res1 h).
  { cbn [concat]. rewrite <- app_assoc. unfold R1, apply_s. rewrite firstn_all2 by lia.
    replace 3%nat with ((3 - length (x_res1 h)) + length (x_res1 h) + 0)%nat at 1 by lia.
    replace (repeat 32 (3 - length (x_res1 h)) ++ x_res1 h) with (repeat 32 (3 - length (x_res1 h)) ++ x_res1 h ++ repeat 32 0)
      by (cbn [repeat]; rewrite app_nil_r; reflexivity).
    apply read_padded. exact Tr1. }
  assert (E3 : read_seq_id (concat [Q1; [32]; R2; C2; [32]; Q2; CL] ++ rest) = (Some (x_n1 h), x_ic1 h)).
  { cbn [concat]. rewrite <- app_assoc. apply seqid_roundtrip; assumption. }
  assert (E4 : read_string 2 (concat [C2; [32]; Q2; CL] ++ rest) = x_ch2 h).
  { cbn [concat]. rewrite <- app_assoc. unfold C2, apply_s.
    replace 2%nat with ((2 - length (x_ch2 h)) + length (x_ch2 h) + 0)%nat at 1 by lia.
    replace (repeat 32 (2 - length (x_ch2 h)) ++ x_ch2 h) with (repeat 32 (2 - length (x_ch2 h)) ++ x_ch2 h ++ repeat 32 0)
      by (cbn [repeat]; rewrite app_nil_r; reflexivity).
    apply read_padded. exact Tc2. }
  assert (E5 : read_string 3 (concat [R2; C2; [32]; Q2; CL] ++ rest) = x_res2 h).
  { cbn [concat]. rewrite <- app_assoc. unfold R2, apply_s. rewrite firstn_all2 by lia.
    replace 3%nat with ((3 - length (x_res2 h)) + length (x_res2 h) + 0)%nat at 1 by lia.
    replace (repeat 32 (3 - length (x_res2 h)) ++ x_res2 h) with (repeat 32 (3 - length (x_res2 h)) ++ x_res2 h ++ repeat 32 0)
      by (cbn [repeat]; rewrite app_nil_r; reflexivity).
    apply read_padded. exact Tr2. }
  assert (E6 : read_seq_id (concat [Q2; CL] ++ rest) = (Some (x_n2 h), x_ic2 h)).
  { cbn [concat]. rewrite <- app_assoc. apply seqid_roundtrip; assumption. }
  assert (E7 : read_int 2 (concat [CL] ++ rest) = x_class h).
  { cbn [concat]. rewrite app_nil_r. unfold CL. rewrite read_int_rjust_digits by assumption. exact VC. }
  assert (H38 : ri 2 38 (concat all ++ rest) = x_class h) by (unfold ri; rewrite A38; exact E7).
  assert (Ha1 : res_addr 18 21 15 (concat all ++ rest) = mkAddr (x_ch1 h) (x_res1 h) (Some (x_n1 h), x_ic1 h) [])
    by (unfold res_addr, rs; rewrite A18, A15, A21, E1, E2, E3; reflexivity).
  assert (Ha2 : res_addr 30 33 27 (concat all ++ rest) = mkAddr (x_ch2 h) (x_res2 h) (Some (x_n2 h), x_ic2 h) [])
    by (unfold res_addr, rs; rewrite A30, A27, A33, E4, E5, E6; reflexivity).
  unfold do_helix. replace (len <? 40)%nat with false by (symmetry; apply Nat.ltb_ge; lia). cbv iota zeta.
  rewrite H38, Ha1, Ha2. reflexivity.
Qed.

(* the line is columns 1-40, a blank, 31 blanks, the 4-column length field, 4 blanks and the newline *)
Lemma helix_line_head : forall h, fits_hx h ->
  helix_line h = Some (concat (helix_head h) ++ repeat 32 32 ++
                       (if x_len h <? 0 then repeat 32 4 else rjust 4 (print_dec (x_len h))) ++ [32; 32; 32; 32; 10]).
Proof.
  intros h F. rewrite (helix_line_form h F). f_equal. unfold helix_head. cbn [concat].
  rewrite !app_nil_r, <- !app_assoc. reflexivity.
Qed.

Theorem helix_roundtrip : forall h, fits_hx h ->
  exists line, helix_line h = Some line /\ length line = 81%nat /\
  forall s rest, do_helix s (line ++ rest) 81 = helix_result s h (if x_len h <? 0 then -1 else x_len h).
Proof.
  intros h F. rewrite (helix_line_head h F). eexists. split; [reflexivity|].
  pose proof (helix_head_length h F) as L40.
  set (F4 := if x_len h <? 0 then repeat 32 4 else rjust 4 (print_dec (x_len h))).
  assert (LF4 : length F4 = 4%nat).
  { unfold F4. destruct (x_len h <? 0) eqn:N; [reflexivity|]. apply Z.ltb_ge in N. destruct F.
    destruct (print_dec_nonneg (x_len h) 4) as (_ & _ & L4 & _); [lia|cbn; lia|].
    unfold rjust. rewrite app_length, repeat_length. lia. }
  split.
  { rewrite !app_length, repeat_length, L40, LF4. cbn [length]. lia. }
  intros s rest. rewrite <- !app_assoc.
  rewrite (helix_head_read h F s _ 81) by lia. f_equal.
  change (72 <? 81)%nat with true. cbn [andb].
  assert (A72 : Records.at_ 72 (concat (helix_head h) ++ repeat 32 32 ++ F4 ++ [32; 32; 32; 32; 10] ++ rest) =
                F4 ++ [32; 32; 32; 32; 10] ++ rest).
  { unfold Records.at_. rewrite skipn_app, skipn_all2 by lia. rewrite L40. cbn [app].
    change (72 - 40)%nat with 32%nat. rewrite skipn_app, repeat_length, Nat.sub_diag.
    rewrite skipn_all2 by (rewrite repeat_length; lia). reflexivity. }
  unfold rs, ri. rewrite A72. destruct F.
  unfold F4. destruct (x_len h <? 0) eqn:N.
  - assert (Eb : read_string 5 (repeat 32 4 ++ [32; 32; 32; 32; 10] ++ rest) = []).
    { change (repeat 32 4 ++ [32; 32; 32; 32; 10] ++ rest) with ((repeat 32 5 ++ [] ++ repeat 32 0) ++ [32; 32; 32; 10] ++ rest).
      apply (read_padded [] 5 0). split; [constructor|left; reflexivity]. }
    rewrite Eb. reflexivity.
  - apply Z.ltb_ge in N. destruct (print_dec_nonneg (x_len h) 4) as (D4 & N4 & L4 & V4); [lia|cbn; lia|].
    set (X := print_dec (x_len h)) in *.
    assert (Es : read_string 5 (rjust 4 X ++ [32; 32; 32; 32; 10] ++ rest) = X).
    { unfold rjust.
      replace ((repeat 32 (4 - length X) ++ X) ++ [32; 32; 32; 32; 10] ++ rest)
        with ((repeat 32 (4 - length X) ++ X ++ repeat 32 1) ++ [32; 32; 32; 10] ++ rest)
        by (rewrite <- !app_assoc; reflexivity).
      replace 5%nat with ((4 - length X) + length X + 1)%nat at 1 by lia.
      apply read_padded. apply digits_tidy; assumption. }
    rewrite Es. destruct X as [|d0 t0] eqn:Ep; [congruence|]. cbn [nonempty].
    change 5%nat with (4 + 1)%nat. rewrite read_int_rjust_more; [exact V4|exact D4|exact N4|exact L4|reflexivity].
Qed.

(* PADDING for the HELIX record as gemmi writes it.  Length not given: the line may end anywhere after column 40
   (all trailing blanks stripped, LF or CR LF or NUL next).  Length given: the line may end right after the length
   (column 76).  Either way the record is read as from the full 80 columns. *)
Theorem helix_padding_no_length : forall h, fits_hx h -> x_len h < 0 ->
  forall s rest len, (40 <= len <= 72)%nat ->
  do_helix s (concat (helix_head h) ++ rest) len = helix_result s h (-1).
Proof.
  intros h F N s rest len Hlen. rewrite (helix_head_read h F s rest len) by lia.
  replace (72 <? len)%nat with false by (symmetry; apply Nat.ltb_ge; lia). reflexivity.
Qed.

Theorem helix_padding_with_length : forall h, fits_hx h -> 0 <= x_len h ->
  forall s c0 rest len, is_term c0 = true -> (72 < len)%nat ->
  do_helix s (concat (helix_head h) ++ repeat 32 32 ++ rjust 4 (print_dec (x_len h)) ++ c0 :: rest) len =
  helix_result s h (x_len h).
Proof.
  intros h F N s c0 rest len Hc Hlen. pose proof (helix_head_length h F) as L40.
  rewrite (helix_head_read h F s _ len) by lia. f_equal.
  replace (72 <? len)%nat with true by (symmetry; apply Nat.ltb_lt; lia). cbn [andb].
  destruct F. destruct (print_dec_nonneg (x_len h) 4) as (D4 & N4 & L4 & V4); [lia|cbn; lia|].
  set (X := print_dec (x_len h)) in *.
  assert (A72 : Records.at_ 72 (concat (helix_head h) ++ repeat 32 32 ++ rjust 4 X ++ c0 :: rest) = rjust 4 X ++ c0 :: rest).
  { unfold Records.at_. rewrite skipn_app, skipn_all2 by lia. rewrite L40. cbn [app].
    change (72 - 40)%nat with 32%nat. rewrite skipn_app, repeat_length, Nat.sub_diag.
    rewrite skipn_all2 by (rewrite repeat_length; lia). reflexivity. }
  unfold rs, ri. rewrite A72.
  assert (Es : read_string 5 (rjust 4 X ++ c0 :: rest) = X).
  { unfold rjust. rewrite <- app_assoc.
    replace 5%nat with ((4 - length X) + length X + 1)%nat at 1 by lia.
    apply read_padded_cut; [apply digits_tidy; assumption|exact N4|exact Hc]. }
  rewrite Es. destruct X as [|d0 t0] eqn:Ep; [congruence|]. cbn [nonempty].
  change 5%nat with (4 + 1)%nat. rewrite read_int_rjust_more; [exact V4|exact D4|exact N4|exact L4|].
  cbn [cur]. unfold is_term in Hc. unfold is_digit. lia.
Qed.

(* non-vacuity: helix 12 from ALA A -3 (insertion code B) to 0PR AA 10000, class 5, length not given *)
Definition ex_helix : hx := mkHx 12 [65;76;65] [65] (-3) 66 [48;80;82] [65;65] 10000 32 5 (-1).
Lemma ex_helix_fits : fits_hx ex_helix /\
  helix_line ex_helix = Some ([72;69;76;73;88;32;32;32;49;50;32;32;49;50;32;65;76;65;32;65;32;32;32;45;51;66;32;48;80;82;65;65;32;65;48;48;48;32;32;53]
                              ++ repeat 32 40 ++ [10]).
Proof.
  split; [|vm_compute; reflexivity].
  assert (T : forall s, Forall (fun c => is_term c = false) s -> s <> [] -> is_cspace (hd 0 s) = false ->
              is_cspace (last s 0) = false -> tidy s).
  { intros s N _ H1 H2. split; [exact N|right; split; assumption]. }
  constructor; cbn [ex_helix x_serial x_res1 x_ch1 x_n1 x_ic1 x_res2 x_ch2 x_n2 x_ic2 x_class x_len]; try lia;
    try (split; [apply T; [repeat constructor|discriminate|reflexivity|reflexivity]|cbn; lia]).
Qed.
