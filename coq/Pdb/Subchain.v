(* Model of assign_subchain_names / assign_subchains (src/polyheur.cpp): the sub-chain name each residue gets.
   subchain = chain name + "x" + suffix, suffix = p / w / b for polymer / water / branched residues and, for the k-th
   non-polymer residue of the chains with that name: 1..9, then 0, 01..0Z, 10, 11, ... (base 36, no bound on k). *)
From GV Require Import Base.Str.
Local Open Scope Z_scope.

Inductive etype := Unknown | Polymer | NonPolymer | Branched | Water.

Definition b36 (d : Z) : Z := if d <? 10 then 48 + d else 55 + d.   (* "0123456789ABCDEFGHIJKLMNOPQRSTUVWXYZ"[d] *)

(* while (n != 0) { insert(begin + pos, base36[n % 36]); n /= 36; }: every new digit goes in front of the earlier ones *)
Fixpoint b36_digits (fuel : nat) (n : Z) (acc : str) : str :=
  match fuel with
  | O => acc
  | S f => if n =? 0 then acc else b36_digits f (n / 36) (b36 (n mod 36) :: acc)
  end.
Definition digits36 (n : Z) : str := b36_digits (S (Z.to_nat (Z.log2 n))) n [].

Definition np_suffix (counter : Z) : str :=
  if counter <? 10 then [48 + counter]
  else let n := counter - 10 in (if n <? 36 then [48] else []) ++ digits36 n.

(* one residue: returns the suffix and the counter after it *)
Definition res_suffix (t : etype) (counter : Z) : str * Z :=
  match t with
  | Polymer => ([112], counter)
  | NonPolymer => (np_suffix (counter + 1), counter + 1)
  | Water => ([119], counter)
  | Branched => ([98], counter)
  | Unknown => ([], counter)
  end.

Fixpoint chain_names (name : str) (types : list etype) (counter : Z) : list str * Z :=
  match types with
  | [] => ([], counter)
  | t :: u => let '(s, c1) := res_suffix t counter in
              let '(l, c2) := chain_names name u c1 in ((name ++ 120 :: s) :: l, c2)
  end.

(* std::map<std::string,int> counters, as an association list *)
Fixpoint get_counter (m : list (str * Z)) (k : str) : Z :=
  match m with
  | [] => 0
  | (k', v) :: t => if str_eqb k' k then v else get_counter t k
  end.
Fixpoint set_counter (m : list (str * Z)) (k : str) (v : Z) : list (str * Z) :=
  match m with
  | [] => [(k, v)]
  | (k', v') :: t => if str_eqb k' k then (k, v) :: t else (k', v') :: set_counter t k v
  end.

Definition all_known (types : list etype) : bool :=
  forallb (fun t => match t with Unknown => false | _ => true end) types.

(* assign_subchains(st, force = true, fail_if_unknown = false) on one model: a chain whose residues all have a known
   entity type gets names; any other chain is left alone (None) *)
Fixpoint model_names (chains : list (str * list etype)) (m : list (str * Z)) : list (option (list str)) :=
  match chains with
  | [] => []
  | (name, types) :: rest =>
    if all_known types then
      let '(l, c) := chain_names name types (get_counter m name) in
      Some l :: model_names rest (set_counter m name c)
    else None :: model_names rest m
  end.
