(* Every text field of an ATOM / HETATM record written by gemmi is read back unchanged, for every atom whose fields
   fit their columns; the numeric columns come back byte for byte. *)
From Coq Require Import Lia.
From GV Require Import Base.Str Pdb.Hy36 Pdb.Hy36Proofs Pdb.AtomLine.
Local Open Scope Z_scope.

(* ---------------------------------------------------------------- lists of pieces *)
Lemma skipn_pieces : forall (pre post : list str) rest,
  skipn (length (concat pre)) (concat (pre ++ post) ++ rest) = concat post ++ rest.
Proof.
  intros pre post rest. rewrite concat_app, <- app_assoc.
  rewrite skipn_app, skipn_all, Nat.sub_diag. reflexivity.
Qed.

Lemma skipn_skipn_ : forall (A : Type) a b (l : list A), skipn b (skipn a l) = skipn (a + b) l.
Proof.
  intros A a. induction a as [|a IH]; intros b l; [reflexivity|].
  destruct l as [|x t]; [cbn; destruct b; reflexivity|]. cbn [skipn Nat.add]. apply IH.
Qed.

(* ---------------------------------------------------------------- read_string on a field *)
Definition noterm (s : str) : Prop := Forall (fun c => is_term c = false) s.
Definition tidy (s : str) : Prop :=
  noterm s /\ (s = [] \/ (is_cspace (hd 0 s) = false /\ is_cspace (last s 0) = false)).

Lemma ltrim_n_field : forall l rest, ltrim_n (length l) (l ++ rest) =
  (length (skip_while is_cspace l), skip_while is_cspace l ++ rest).
Proof.
  induction l as [|c t IH]; intros rest; [reflexivity|].
  cbn [length ltrim_n app cur adv skip_while]. destruct (is_cspace c); [apply IH|reflexivity].
Qed.

Lemma upto_term_field : forall l rest, noterm l -> upto_term (length l) (l ++ rest) = l.
Proof.
  induction l as [|c t IH]; intros rest H; [reflexivity|]. inversion H; subst.
  cbn [length upto_term app cur adv]. rewrite H2. f_equal. apply IH. assumption.
Qed.

Lemma noterm_skip : forall l, noterm l -> noterm (skip_while is_cspace l).
Proof.
  induction l as [|c t IH]; intros H; [constructor|]. inversion H; subst. cbn [skip_while].
  destruct (is_cspace c); [apply IH; assumption|exact H].
Qed.

Lemma read_string_field : forall l rest, noterm l ->
  read_string (length l) (l ++ rest) = rtrim (skip_while is_cspace l).
Proof.
  intros l rest H. unfold read_string. rewrite ltrim_n_field.
  rewrite upto_term_field by (apply noterm_skip; exact H). reflexivity.
Qed.

Lemma rtrim_blanks : forall k, rtrim (repeat 32 k) = [].
Proof. induction k; [reflexivity|]. cbn [repeat rtrim]. rewrite IHk. reflexivity. Qed.

Lemma rtrim_app_blanks : forall s k, rtrim (s ++ repeat 32 k) = rtrim s.
Proof.
  induction s as [|c t IH]; intros k; [apply rtrim_blanks|]. cbn [app rtrim]. rewrite IH. reflexivity.
Qed.

Lemma rtrim_id : forall s, s <> [] -> is_cspace (last s 0) = false -> rtrim s = s.
Proof.
  induction s as [|c t IH]; intros Hne Hl; [congruence|].
  destruct t as [|d u].
  - cbn in Hl. cbn [rtrim]. rewrite Hl. reflexivity.
  - change (last (c :: d :: u) 0) with (last (d :: u) 0) in Hl.
    change (rtrim (c :: d :: u)) with (match rtrim (d :: u) with [] => if is_cspace c then [] else [c] | r => c :: r end).
    rewrite (IH ltac:(discriminate) Hl). reflexivity.
Qed.

Lemma skip_blanks : forall k s, skip_while is_cspace (repeat 32 k ++ s) = skip_while is_cspace s.
Proof. induction k; intros s; [reflexivity|]. cbn [repeat app skip_while]. apply IHk. Qed.

Lemma skip_tidy : forall s, tidy s -> skip_while is_cspace s = s.
Proof.
  intros s [_ [->|[H _]]]; [reflexivity|]. destruct s as [|c t]; [reflexivity|]. cbn in H. cbn [skip_while]. rewrite H. reflexivity.
Qed.

Lemma rtrim_tidy : forall s, tidy s -> rtrim s = s.
Proof.
  intros s [_ [->|[_ H]]]; [reflexivity|]. destruct s as [|c t]; [reflexivity|]. apply rtrim_id; [discriminate|exact H].
Qed.

Lemma noterm_blanks : forall k, noterm (repeat 32 k).
Proof. induction k; constructor; [reflexivity|assumption]. Qed.

(* a tidy string, padded with blanks on either side to the width of its field, is read back as itself *)
Lemma read_padded : forall s kl kr rest, tidy s ->
  read_string (kl + length s + kr) ((repeat 32 kl ++ s ++ repeat 32 kr) ++ rest) = s.
Proof.
  intros s kl kr rest T.
  replace (kl + length s + kr)%nat with (length (repeat 32 kl ++ s ++ repeat 32 kr))
    by (rewrite !app_length, !repeat_length; lia).
  rewrite read_string_field.
  - rewrite skip_blanks.
    destruct s as [|c t].
    { cbn [app]. rewrite <- (app_nil_r (repeat 32 kr)), skip_blanks. reflexivity. }
    destruct T as [N [E|[Hh Hl]]]; [discriminate|].
    + cbn in Hh. cbn [app skip_while]. rewrite Hh.
      change (c :: t ++ repeat 32 kr) with ((c :: t) ++ repeat 32 kr). rewrite rtrim_app_blanks.
      apply rtrim_id; [discriminate|exact Hl].
  - apply Forall_app. split; [apply noterm_blanks|]. apply Forall_app. split; [apply T|apply noterm_blanks].
Qed.

(* ---------------------------------------------------------------- lengths of the hybrid-36 fields *)
Lemma field5_serial_length : forall n, 0 <= n <= 43770015 -> length (field5 (encode_serial n)) = 5%nat.
Proof.
  intros n Hn. unfold field5, encode_serial, rjust. rewrite app_length, repeat_length.
  destruct (n <? 100000) eqn:E.
  - unfold print_dec. replace (n <? 0) with false by lia.
    destruct (ds_ok 11 5 n) as (_ & _ & H3 & _); [lia|pw|]. rewrite firstn_all2 by lia. lia.
  - unfold base36_encode, rjust. rewrite app_length, repeat_length.
    destruct (b36_ok 5 5 (n + 16696160)) as (_ & _ & H3 & _); [lia|pw|left; pw|]. lia.
Qed.

Lemma field5_seqid_length : forall n ic, -999 <= n <= 1223055 -> length (field5 (write_seq_id n ic)) = 5%nat.
Proof.
  intros n ic Hn. unfold field5, write_seq_id, rjust. rewrite !app_length, repeat_length. cbn [length].
  destruct ((-1000 <? n) && (n <? 10000)) eqn:E.
  - unfold print_dec. destruct (n <? 0) eqn:En.
    + destruct (ds_ok 11 3 (- n)) as (_ & _ & H3 & _); [lia|pw|]. rewrite firstn_all2 by (cbn [length]; lia). cbn [length]. lia.
    + destruct (ds_ok 11 4 n) as (_ & _ & H3 & _); [lia|pw|]. rewrite firstn_all2 by lia. lia.
  - unfold base36_encode, rjust. rewrite app_length, repeat_length.
    destruct (b36_ok 4 4 (n + 456560)) as (_ & _ & H3 & _); [lia|pw|left; pw|]. lia.
Qed.

(* ---------------------------------------------------------------- the record *)
Definition upper (c : Z) : Prop := 65 <= c <= 90.

Record fits (t : atext) (xyz occ b : str) : Prop := mkFits {
  f_serial : 0 <= t_serial t <= 43770015;
  f_name : tidy (t_name t) /\ (length (t_name t) <= 4)%nat;
  f_el : (exists e, t_el t = [e] /\ upper e) \/ (exists e1 e2, t_el t = [e1; e2] /\ upper e1 /\ upper e2);
  f_altloc : t_altloc t <> 32 /\ ~ (97 <= t_altloc t <= 122);
  f_resname : tidy (t_resname t) /\ (length (t_resname t) <= 3)%nat;
  f_chain : tidy (t_chain t) /\ (length (t_chain t) <= 2)%nat;
  f_seqnum : -999 <= t_seqnum t <= 1223055;
  f_icode : t_icode t <> 13 /\ t_icode t <> 10;
  f_segment : tidy (t_segment t) /\ (length (t_segment t) <= 4)%nat;
  f_charge : -9 <= t_charge t <= 9;
  f_xyz : length xyz = 24%nat; f_occ : length occ = 6%nat; f_b : length b = 6%nat }.

Lemma padded_name_form : forall t, (length (t_name t) <= 4)%nat ->
  exists k, (k <= 1)%nat /\ padded_name t = repeat 32 k ++ t_name t /\ (k + length (t_name t) <= 4)%nat.
Proof.
  intros t H. unfold padded_name.
  destruct (t_el t) as [|e [|e2 r]]; try (exists 0%nat; cbn; repeat split; lia).
  destruct (((e =? alpha_up _) || _) && (length (t_name t) <? 4)%nat) eqn:E.
  - apply andb_prop in E. destruct E as [_ E]. apply Nat.ltb_lt in E. exists 1%nat. cbn. repeat split; lia.
  - exists 0%nat. cbn. repeat split; lia.
Qed.

Ltac piece_len := cbn [concat]; rewrite ?app_nil_r; repeat (rewrite ?app_length; cbn [length]).

(* columns 1-78 followed by ANY two bytes d1 d2 (the charge columns, or a line end when trailing blanks were stripped)
   in a line of any length len > 78: everything but the charge is read back from columns 1-78 alone *)
Theorem atom_head_read : forall t xyz occ b d1 d2 len rest, fits t xyz occ b -> (78 < len)%nat ->
  read_atom (concat (atom_head t xyz occ b) ++ [d1; d2] ++ rest) len =
  mkRd (t_het t) (t_serial t) (t_name t) (t_altloc t) (t_resname t) (t_chain t) (Some (t_seqnum t), t_icode t)
       (t_segment t)
       (Some (match t_el t with [e] => (32, e) | [e1; e2] => (e1, e2) | _ => (0, 0) end))
       (read_charge d1 d2) xyz occ b.
Proof.
  intros t xyz occ b c1 c2 len rest F Hlen.
  replace (concat (atom_head t xyz occ b) ++ [c1; c2] ++ rest)
    with (concat (atom_head t xyz occ b ++ [[c1; c2]]) ++ rest)
    by (rewrite concat_app; cbn [concat]; rewrite app_nil_r, <- app_assoc; reflexivity).
  destruct F.
  destruct f_name0 as [Tn Ln]. destruct f_resname0 as [Tr Lr]. destruct f_chain0 as [Tc Lc].
  destruct f_segment0 as [Ts Ls]. destruct f_icode0 as [I1 I2].
  pose proof (field5_serial_length _ f_serial0) as LS. pose proof (field5_seqid_length _ (t_icode t) f_seqnum0) as LQ.
  destruct (padded_name_form t Ln) as [kp [Hkp [Epn Lpn]]].
  (* lengths of the truncated / justified fields *)
  assert (Lname : length (ljust_trunc 4 (padded_name t)) = 4%nat).
  { unfold ljust_trunc. rewrite app_length, repeat_length, firstn_length. rewrite Epn, app_length, repeat_length. lia. }
  assert (Lres : length (rjust_trunc 3 (t_resname t)) = 3%nat).
  { unfold rjust_trunc, rjust. rewrite app_length, repeat_length, firstn_length. lia. }
  assert (Lch : length (rjust 2 (t_chain t)) = 2%nat) by (unfold rjust; rewrite app_length, repeat_length; lia).
  assert (Lseg : length (ljust_trunc 4 (t_segment t)) = 4%nat).
  { unfold ljust_trunc. rewrite app_length, repeat_length, firstn_length. lia. }
  assert (Lel : length (rjust 2 (t_el t)) = 2%nat).
  { destruct f_el0 as [[e [-> _]]|[e1 [e2 [-> _]]]]; reflexivity. }
  assert (Lrec : length (if t_het t then REC_HETATM else REC_ATOM) = 6%nat) by (destruct (t_het t); reflexivity).
  unfold atom_head. cbn [app].
  set (P0 := if t_het t then REC_HETATM else REC_ATOM) in *.
  set (P1 := field5 (encode_serial (t_serial t))) in *.
  set (P3 := ljust_trunc 4 (padded_name t)) in *.
  set (P5 := rjust_trunc 3 (t_resname t)) in *.
  set (P6 := rjust 2 (t_chain t)) in *.
  set (P7 := field5 (write_seq_id (t_seqnum t) (t_icode t))) in *.
  set (P13 := ljust_trunc 4 (t_segment t)) in *.
  set (P14 := rjust 2 (t_el t)) in *.
  assert (L0 : length P0 = 6%nat) by exact Lrec.
  assert (L1 : length P1 = 5%nat) by exact LS.
  assert (L7 : length P7 = 5%nat) by exact LQ.
  assert (L3 : length P3 = 4%nat) by exact Lname.
  assert (L5 : length P5 = 3%nat) by exact Lres.
  assert (L6 : length P6 = 2%nat) by exact Lch.
  assert (L13 : length P13 = 4%nat) by exact Lseg.
  assert (L14 : length P14 = 2%nat) by exact Lel.
  set (ALT := [write_altloc (t_altloc t)]).
  assert (LA : length ALT = 1%nat) by reflexivity.
  set (all := [P0; P1; [32]; P3; ALT; P5; P6; P7; [32;32;32]; xyz; occ; b; [32;32;32;32;32;32]; P13; P14; [c1; c2]]).
  (* skipping to each field *)
  assert (A : forall (pre post : list str) k, all = pre ++ post -> length (concat pre) = k ->
              at_ k (concat all ++ rest) = concat post ++ rest).
  { intros pre post k E Hk. unfold at_. rewrite E, <- Hk. apply skipn_pieces. }
  assert (A0 : at_ 0 (concat all ++ rest) = concat all ++ rest) by reflexivity.
  assert (A6 : at_ 6 (concat all ++ rest) = concat [P1; [32]; P3; ALT; P5; P6; P7; [32;32;32]; xyz; occ; b; [32;32;32;32;32;32]; P13; P14; [c1; c2]] ++ rest).
  { apply (A [P0]); [reflexivity|]. piece_len. lia. }
  assert (A12 : at_ 12 (concat all ++ rest) = concat [P3; ALT; P5; P6; P7; [32;32;32]; xyz; occ; b; [32;32;32;32;32;32]; P13; P14; [c1; c2]] ++ rest).
  { apply (A [P0; P1; [32]]); [reflexivity|]. piece_len. lia. }
  assert (A16 : at_ 16 (concat all ++ rest) = concat [ALT; P5; P6; P7; [32;32;32]; xyz; occ; b; [32;32;32;32;32;32]; P13; P14; [c1; c2]] ++ rest).
  { apply (A [P0; P1; [32]; P3]); [reflexivity|]. piece_len. lia. }
  assert (A17 : at_ 17 (concat all ++ rest) = concat [P5; P6; P7; [32;32;32]; xyz; occ; b; [32;32;32;32;32;32]; P13; P14; [c1; c2]] ++ rest).
  { apply (A [P0; P1; [32]; P3; ALT]); [reflexivity|]. piece_len. lia. }
  assert (A20 : at_ 20 (concat all ++ rest) = concat [P6; P7; [32;32;32]; xyz; occ; b; [32;32;32;32;32;32]; P13; P14; [c1; c2]] ++ rest).
  { apply (A [P0; P1; [32]; P3; ALT; P5]); [reflexivity|]. piece_len. lia. }
  assert (A22 : at_ 22 (concat all ++ rest) = concat [P7; [32;32;32]; xyz; occ; b; [32;32;32;32;32;32]; P13; P14; [c1; c2]] ++ rest).
  { apply (A [P0; P1; [32]; P3; ALT; P5; P6]); [reflexivity|]. piece_len. lia. }
  assert (A30 : at_ 30 (concat all ++ rest) = concat [xyz; occ; b; [32;32;32;32;32;32]; P13; P14; [c1; c2]] ++ rest).
  { apply (A [P0; P1; [32]; P3; ALT; P5; P6; P7; [32;32;32]]); [reflexivity|]. piece_len. lia. }
  assert (A54 : at_ 54 (concat all ++ rest) = concat [occ; b; [32;32;32;32;32;32]; P13; P14; [c1; c2]] ++ rest).
  { apply (A [P0; P1; [32]; P3; ALT; P5; P6; P7; [32;32;32]; xyz]); [reflexivity|]. piece_len. lia. }
  assert (A60 : at_ 60 (concat all ++ rest) = concat [b; [32;32;32;32;32;32]; P13; P14; [c1; c2]] ++ rest).
  { apply (A [P0; P1; [32]; P3; ALT; P5; P6; P7; [32;32;32]; xyz; occ]); [reflexivity|]. piece_len. lia. }
  assert (A72 : at_ 72 (concat all ++ rest) = concat [P13; P14; [c1; c2]] ++ rest).
  { apply (A [P0; P1; [32]; P3; ALT; P5; P6; P7; [32;32;32]; xyz; occ; b; [32;32;32;32;32;32]]); [reflexivity|]. piece_len. lia. }
  assert (A76 : at_ 76 (concat all ++ rest) = concat [P14; [c1; c2]] ++ rest).
  { apply (A [P0; P1; [32]; P3; ALT; P5; P6; P7; [32;32;32]; xyz; occ; b; [32;32;32;32;32;32]; P13]); [reflexivity|]. piece_len. lia. }
  assert (A78 : at_ 78 (concat all ++ rest) = [c1; c2] ++ rest).
  { rewrite (A [P0; P1; [32]; P3; ALT; P5; P6; P7; [32;32;32]; xyz; occ; b; [32;32;32;32;32;32]; P13; P14] [[c1; c2]] 78%nat);
      [cbn [concat app]; reflexivity|reflexivity|]. piece_len. lia. }
  assert (A77 : chn 77 (concat all ++ rest) = cur (skipn 1 P14 ++ [c1; c2] ++ rest)).
  { unfold chn, at_. change 77%nat with (76 + 1)%nat. rewrite <- (skipn_skipn_ Z 76 1). fold (at_ 76 (concat all ++ rest)). rewrite A76.
    cbn [concat]. rewrite app_nil_r, <- app_assoc. rewrite skipn_app.
    replace (1 - length P14)%nat with 0%nat by lia. reflexivity. }
  assert (A79 : chn 79 (concat all ++ rest) = c2).
  { unfold chn, at_. change 79%nat with (78 + 1)%nat. rewrite <- (skipn_skipn_ Z 78 1). fold (at_ 78 (concat all ++ rest)). rewrite A78. reflexivity. }
  match goal with |- read_atom (concat ?L ++ rest) len = _ => change L with all end. unfold read_atom. unfold chn at 1 2 3 5 7. rewrite A0, A6, A12, A16, A17, A20, A22, A30, A54, A60, A72, A76, A78, A77, A79.
  replace (72 <? len)%nat with true by (symmetry; apply Nat.ltb_lt; lia).
  replace (76 <? len)%nat with true by (symmetry; apply Nat.ltb_lt; lia).
  replace (78 <? len)%nat with true by (symmetry; apply Nat.ltb_lt; lia). cbv iota. cbn [andb].
  f_equal.
  - (* record name *)
    unfold P0. destruct (t_het t); reflexivity.
  - (* serial *)
    cbn [concat]. rewrite <- app_assoc. apply serial_roundtrip. exact f_serial0.
  - (* atom name *)
    cbn [concat]. rewrite <- app_assoc. unfold P3, ljust_trunc.
    rewrite firstn_all2 by (rewrite Epn, app_length, repeat_length; lia).
    rewrite Epn. set (kr := (4 - kp - length (t_name t))%nat).
    replace (4 - length (repeat 32%Z kp ++ t_name t))%nat with kr by (rewrite app_length, repeat_length; unfold kr; lia).
    replace 4%nat with (kp + length (t_name t) + kr)%nat at 1 by (unfold kr; lia).
    rewrite <- !app_assoc.
    match goal with |- read_string _ (repeat 32 kp ++ t_name t ++ repeat 32 kr ++ ?T) = _ =>
      replace (repeat 32 kp ++ t_name t ++ repeat 32 kr ++ T) with ((repeat 32 kp ++ t_name t ++ repeat 32 kr) ++ T)
        by (rewrite <- !app_assoc; reflexivity) end.
    apply read_padded. exact Tn.
  - (* altloc *)
    unfold ALT. cbn [concat app cur]. apply altloc_roundtrip; apply f_altloc0.
  - (* residue name *)
    cbn [concat]. rewrite <- app_assoc. unfold P5, rjust_trunc, rjust. rewrite firstn_all2 by lia.
    replace 3%nat with ((3 - length (t_resname t)) + length (t_resname t) + 0)%nat at 1 by lia.
    replace (repeat 32 (3 - length (t_resname t)) ++ t_resname t)
      with (repeat 32 (3 - length (t_resname t)) ++ t_resname t ++ repeat 32 0) by (cbn [repeat]; rewrite app_nil_r; reflexivity).
    apply read_padded. exact Tr.
  - (* chain *)
    cbn [concat]. rewrite <- app_assoc. unfold P6, rjust.
    replace 2%nat with ((2 - length (t_chain t)) + length (t_chain t) + 0)%nat at 1 by lia.
    replace (repeat 32 (2 - length (t_chain t)) ++ t_chain t)
      with (repeat 32 (2 - length (t_chain t)) ++ t_chain t ++ repeat 32 0) by (cbn [repeat]; rewrite app_nil_r; reflexivity).
    apply read_padded. exact Tc.
  - (* residue number and insertion code *)
    cbn [concat]. rewrite <- app_assoc. apply seqid_roundtrip; assumption.
  - (* segment *)
    cbn [concat]. rewrite <- app_assoc. unfold P13, ljust_trunc. rewrite firstn_all2 by lia.
    replace 4%nat with (0 + length (t_segment t) + (4 - length (t_segment t)))%nat at 1 by lia.
    change (t_segment t ++ repeat 32 (4 - length (t_segment t)))
      with (repeat 32 0 ++ t_segment t ++ repeat 32 (4 - length (t_segment t))).
    apply read_padded. exact Ts.
  - (* element columns *)
    unfold P14. destruct f_el0 as [[e [-> U]]|[e1 [e2 [-> [U1 U2]]]]]; unfold upper in *.
    + cbn [rjust length Nat.sub repeat app concat cur skipn]. unfold is_alpha.
      replace ((65 <=? e) && (e <=? 90)) with true by lia. rewrite orb_true_r. reflexivity.
    + cbn [rjust length Nat.sub repeat app concat cur skipn]. unfold is_alpha.
      replace ((65 <=? e1) && (e1 <=? 90)) with true by lia. reflexivity.
  - cbn [concat]. rewrite <- app_assoc. rewrite firstn_app, <- f_xyz0, firstn_all, Nat.sub_diag. cbn [firstn]. apply app_nil_r.
  - cbn [concat]. rewrite <- app_assoc. rewrite firstn_app, <- f_occ0, firstn_all, Nat.sub_diag. cbn [firstn]. apply app_nil_r.
  - cbn [concat]. rewrite <- app_assoc. rewrite firstn_app, <- f_b0, firstn_all, Nat.sub_diag. cbn [firstn]. apply app_nil_r.
Qed.

Theorem atom_line_roundtrip : forall t xyz occ b rest, fits t xyz occ b ->
  read_atom (atom_line t xyz occ b ++ rest) 81 =
  mkRd (t_het t) (t_serial t) (t_name t) (t_altloc t) (t_resname t) (t_chain t) (Some (t_seqnum t), t_icode t)
       (t_segment t)
       (Some (match t_el t with [e] => (32, e) | [e1; e2] => (e1, e2) | _ => (0, 0) end))
       (Some (t_charge t)) xyz occ b.
Proof.
  intros t xyz occ b rest F.
  unfold atom_line, atom_pieces. rewrite concat_app. cbn [concat]. rewrite app_nil_r, <- app_assoc.
  rewrite (atom_head_read t xyz occ b _ _ 81 rest F) by lia.
  pose proof (charge_roundtrip (t_charge t) (f_charge _ _ _ _ F)) as Q.
  destruct (write_charge (t_charge t)) as [dg sg]. cbn [fst snd]. rewrite Q. reflexivity.
Qed.

(* PADDING AND LINE ENDS for the ATOM / HETATM record as gemmi writes it: when the charge columns are blank (charge 0)
   the line may lose its two trailing blanks (LF, or CR LF, follows column 78), or one of them, or keep them before a
   CR: the record is read exactly as from the full 80 columns.  tail = the two bytes found in columns 79-80. *)
Definition neutral_tail (d1 d2 : Z) : Prop :=
  (d1 = 32 /\ d2 = 32) \/ (d1 = 10 /\ d2 = 0) \/ (d1 = 13 /\ d2 = 10) \/ (d1 = 32 /\ d2 = 10) \/ (d1 = 32 /\ d2 = 13).

Theorem atom_line_padding : forall t xyz occ b d1 d2 len rest rest', fits t xyz occ b -> t_charge t = 0 ->
  neutral_tail d1 d2 -> (78 < len)%nat ->
  read_atom (concat (atom_head t xyz occ b) ++ [d1; d2] ++ rest) len = read_atom (atom_line t xyz occ b ++ rest') 81.
Proof.
  intros t xyz occ b d1 d2 len rest rest' F Hq Ht Hlen.
  rewrite (atom_line_roundtrip t xyz occ b rest' F), (atom_head_read t xyz occ b d1 d2 len rest F Hlen), Hq.
  destruct Ht as [[-> ->]|[[-> ->]|[[-> ->]|[[-> ->]|[-> ->]]]]]; reflexivity.
Qed.

(* and the full line really is columns 1-78 followed by two blanks when the charge is 0 *)
Lemma atom_line_neutral : forall t xyz occ b, t_charge t = 0 ->
  atom_line t xyz occ b = concat (atom_head t xyz occ b) ++ [32; 32].
Proof.
  intros t xyz occ b Hq. unfold atom_line, atom_pieces. rewrite concat_app, Hq. cbn [concat write_charge fst snd].
  rewrite app_nil_r. reflexivity.
Qed.

(* non-vacuity: HETATM 100000 (hybrid-36 serial A0000), atom HO5' of residue 0PR in chain AA, number -999 with
   insertion code A, altloc B, segment "S 1", deuterium, charge -2 *)
Definition ex_atom : atext := mkAt true 100000 [72;79;53;39] [68] true 66 [48;80;82] [65;65] (-999) 65 [83;32;49] (-2).
Lemma ex_atom_fits :
  fits ex_atom (repeat 49 24) (repeat 50 6) (repeat 51 6) /\
  firstn 30 (atom_line ex_atom (repeat 49 24) (repeat 50 6) (repeat 51 6)) =
  [72;69;84;65;84;77;65;48;48;48;48;32;72;79;53;39;66;48;80;82;65;65;45;57;57;57;65;32;32;32].
Proof.
  split; [|vm_compute; reflexivity].
  assert (T : forall s, Forall (fun c => is_term c = false) s -> s <> [] -> is_cspace (hd 0 s) = false ->
              is_cspace (last s 0) = false -> tidy s).
  { intros s N _ H1 H2. split; [exact N|right; split; assumption]. }
  constructor; cbn [ex_atom t_serial t_name t_el t_altloc t_resname t_chain t_seqnum t_icode t_segment t_charge];
    try lia; try reflexivity.
  - split; [apply T; [repeat constructor|discriminate|reflexivity|reflexivity]|cbn; lia].
  - left. exists 68. split; [reflexivity|unfold upper; lia].
  - split; [apply T; [repeat constructor|discriminate|reflexivity|reflexivity]|cbn; lia].
  - split; [apply T; [repeat constructor|discriminate|reflexivity|reflexivity]|cbn; lia].
  - split; [apply T; [repeat constructor|discriminate|reflexivity|reflexivity]|cbn; lia].
Qed.
