(* Round-trip proofs for the hybrid-36 / decimal fixed-column codecs of Pdb/Hy36.v. *)
From Coq Require Import Lia ZifyBool.
From GV Require Import Base.Str Pdb.Hy36.
Local Open Scope Z_scope.

Ltac pw := cbn [Z.of_nat Pos.of_succ_nat Pos.succ pred]; lia.

Definition dv (l : str) : Z := fold_left (fun a c => a * 10 + (c - 48)) l 0.
Definition alldig (l : str) : Prop := Forall (fun c => is_digit c = true) l.
Definition v36 (l : str) : Z := fold_left (fun a c => a * 36 + dig36 c) l 0.
Definition all36 (l : str) : Prop := Forall (fun c => 0 <= dig36 c) l.

Lemma pow10_S k : 10 ^ Z.of_nat (S k) = 10 * 10 ^ Z.of_nat k.
Proof. rewrite Nat2Z.inj_succ, Z.pow_succ_r; lia. Qed.
Lemma pow36_S k : 36 ^ Z.of_nat (S k) = 36 * 36 ^ Z.of_nat k.
Proof. rewrite Nat2Z.inj_succ, Z.pow_succ_r; lia. Qed.
Lemma pow10_pos k : 0 < 10 ^ Z.of_nat k.
Proof. apply Z.pow_pos_nonneg; lia. Qed.
Lemma pow36_pos k : 0 < 36 ^ Z.of_nat k.
Proof. apply Z.pow_pos_nonneg; lia. Qed.

(* ---------------------------------------------------------------- decimal printing *)

Lemma ds_ok : forall f k n, (0 < k <= f)%nat -> 0 <= n < 10 ^ Z.of_nat k ->
  dv (ds f n) = n /\ alldig (ds f n) /\ (length (ds f n) <= k)%nat /\ ds f n <> [].
Proof.
  induction f as [|f IH]; intros k n Hk Hn; [exfalso; clear - Hk; lia|].
  cbn [ds]. destruct (n <? 10) eqn:E.
  - repeat split.
    + unfold dv; cbn [fold_left]. lia.
    + constructor; [|constructor]. unfold is_digit. lia.
    + cbn [length]. lia.
    + discriminate.
  - destruct k as [|k]; [lia|]. rewrite pow10_S in Hn.
    assert (Hk' : (0 < k)%nat).
    { destruct k; [|lia]. cbn in Hn. lia. }
    destruct (IH k (n / 10)) as (H1 & H2 & H3 & H4); [lia| |].
    { split; [apply Z.div_pos; lia|]. apply Z.div_lt_upper_bound; lia. }
    repeat split.
    + unfold dv in *. rewrite fold_left_app. cbn [fold_left]. rewrite H1.
      pose proof (Z.div_mod n 10). lia.
    + apply Forall_app; split; [exact H2|]. constructor; [|constructor].
      unfold is_digit. pose proof (Z.mod_pos_bound n 10). lia.
    + rewrite app_length. cbn [length]. lia.
    + intro HH. apply app_eq_nil in HH. destruct HH; discriminate.
Qed.

Lemma digs_app : forall l acc rest, alldig l ->
  digs (length l) acc (l ++ rest) = fold_left (fun a c => a * 10 + (c - 48)) l acc.
Proof.
  induction l as [|c l IH]; intros acc rest H; [reflexivity|].
  inversion H; subst. cbn [length digs app cur adv fold_left].
  rewrite H2. apply IH; assumption.
Qed.

Lemma skip_sp_blanks : forall k m s, skip_sp (k + m) (repeat 32 k ++ s) = skip_sp m s.
Proof. induction k; intros; [reflexivity|]. cbn. apply IHk. Qed.

Lemma skip_sp_stop : forall m s, is_cspace (cur s) = false -> skip_sp m s = (m, s).
Proof. destruct m; intros; [reflexivity|]. cbn. rewrite H. reflexivity. Qed.

Lemma digit_not_space c : is_digit c = true -> is_cspace c = false /\ c <> 45 /\ c <> 43 /\ lt_A c = true.
Proof. unfold is_digit, is_cspace, lt_A. lia. Qed.

(* reading a right-justified non-negative decimal from a field of width w *)
Lemma read_int_rjust_digits : forall w l rest, alldig l -> l <> [] -> (length l <= w)%nat ->
  read_int w (rjust w l ++ rest) = dv l.
Proof.
  intros w l rest Hd Hne Hlen. unfold read_int, rjust.
  replace w with ((w - length l) + length l)%nat at 1 by lia.
  rewrite <- app_assoc, skip_sp_blanks.
  destruct l as [|c l]; [congruence|]. inversion Hd; subst.
  destruct (digit_not_space c H1) as (Hs & H45 & H43 & _).
  rewrite skip_sp_stop by (cbn; exact Hs).
  cbn [cur app]. replace (c =? 45) with false by lia. replace (c =? 43) with false by lia.
  change (c :: l ++ rest) with ((c :: l) ++ rest). rewrite digs_app by assumption. reflexivity.
Qed.

(* ---------------------------------------------------------------- base 36 *)

Lemma dig36_b36char d : 0 <= d < 36 -> dig36 (b36char d) = d.
Proof.
  unfold dig36, b36char, is_digit. intros. destruct (d <? 10) eqn:E.
  - replace ((48 <=? 48 + d) && (48 + d <=? 57)) with true by lia. lia.
  - replace ((48 <=? 55 + d) && (55 + d <=? 57)) with false by lia.
    replace ((65 <=? 55 + d) && (55 + d <=? 90)) with true by lia. lia.
Qed.

Lemma b36char_letter d : 10 <= d < 36 -> 65 <= b36char d <= 90.
Proof. unfold b36char. intros. destruct (d <? 10) eqn:E; lia. Qed.

Lemma b36_ok : forall f k v, (0 < k <= f)%nat -> 0 <= v < 36 ^ Z.of_nat k ->
  (36 ^ Z.of_nat (pred k) <= v \/ k = 1%nat) ->
  v36 (b36_digits f v) = v /\ all36 (b36_digits f v) /\ length (b36_digits f v) = k /\
  hd 0 (b36_digits f v) = b36char (v / 36 ^ Z.of_nat (pred k)).
Proof.
  induction f as [|f IH]; intros k v Hk Hv Hlow; [exfalso; clear - Hk; lia|].
  cbn [b36_digits]. rewrite Z.quot_div_nonneg, Z.rem_mod_nonneg by lia.
  pose proof (Z.mod_pos_bound v 36 ltac:(lia)) as Hm.
  destruct (v / 36 =? 0) eqn:E.
  - assert (v < 36) by (apply Z.eqb_eq in E; pose proof (Z.div_mod v 36); lia).
    assert (k = 1%nat).
    { destruct Hlow as [Hl|]; [|assumption]. destruct k as [|[|k]]; [lia|reflexivity|].
      cbn [pred] in Hl. rewrite pow36_S in Hl. pose proof (pow36_pos k). lia. }
    subst k. rewrite Z.mod_small by lia. repeat split.
    + unfold v36. cbn [fold_left]. rewrite dig36_b36char; lia.
    + constructor; [|constructor]. rewrite dig36_b36char; lia.
    + cbn [hd pred Z.of_nat]. rewrite Z.pow_0_r, Z.div_1_r. reflexivity.
  - apply Z.eqb_neq in E.
    assert (36 <= v) by (pose proof (Z.div_mod v 36); pose proof (Z.div_pos v 36); lia).
    destruct k as [|k]; [lia|].
    assert (Hk' : (0 < k)%nat).
    { destruct k; [|lia]. cbn in Hv. lia. }
    rewrite pow36_S in Hv. cbn [pred] in *.
    destruct (IH k (v / 36)) as (H1 & H2 & H3 & H4); [lia| | |].
    { split; [apply Z.div_pos; lia|apply Z.div_lt_upper_bound; lia]. }
    { destruct k as [|k]; [lia|]. destruct k as [|k]; [right; reflexivity|left].
      cbn [pred]. destruct Hlow as [Hl|]; [|lia]. rewrite pow36_S in Hl.
      apply Z.div_le_lower_bound; lia. }
    repeat split.
    + unfold v36 in *. rewrite fold_left_app. cbn [fold_left]. rewrite H1, dig36_b36char by lia.
      pose proof (Z.div_mod v 36). lia.
    + apply Forall_app; split; [exact H2|]. constructor; [|constructor]. rewrite dig36_b36char; lia.
    + rewrite app_length, H3. cbn [length]. lia.
    + destruct (b36_digits f (v / 36)) as [|c t] eqn:El; [cbn in H3; lia|].
      cbn [hd app] in *. rewrite H4.
      destruct k as [|k]; [lia|]. cbn [pred]. rewrite pow36_S.
      rewrite Z.div_div by (pose proof (pow36_pos k); lia). reflexivity.
Qed.

Lemma acc36_all : forall l a, all36 l -> acc36 a l = fold_left (fun a c => a * 36 + dig36 c) l a.
Proof.
  induction l as [|c l IH]; intros a H; [reflexivity|]. inversion H; subst.
  cbn [acc36 fold_left]. replace (dig36 c <? 0) with false by lia. apply IH; assumption.
Qed.

(* strtol on a digit string that starts with a capital letter *)
Lemma strtol36_letters : forall c l, 65 <= c <= 90 -> all36 (c :: l) -> strtol36 (c :: l) = v36 (c :: l).
Proof.
  intros c l Hc Ha. unfold strtol36. cbn [skip_while].
  replace (is_cspace c) with false by (unfold is_cspace; lia).
  destruct (Z.eq_dec c 45); [lia|]. destruct (Z.eq_dec c 43); [lia|].
  assert (acc36 0 (c :: l) = v36 (c :: l)) by (apply acc36_all; assumption).
  destruct c as [|p|p]; try lia.
  do 6 (destruct p as [p|p|]; try lia; try assumption).
Qed.

Lemma read_base36_field : forall k v rest, (0 < k)%nat ->
  10 * 36 ^ Z.of_nat (pred k) <= v < 36 ^ Z.of_nat k ->
  read_base36 k (rjust k (b36_digits k v) ++ rest) = v /\ lt_A (cur (rjust k (b36_digits k v) ++ rest)) = false.
Proof.
  intros k v rest Hk Hv.
  pose proof (pow36_pos (pred k)) as Hp.
  destruct (b36_ok k k v) as (H1 & H2 & H3 & H4); [lia|lia|left; lia|].
  unfold rjust, read_base36. rewrite H3, Nat.sub_diag. cbn [repeat app].
  assert (Hd : 10 <= v / 36 ^ Z.of_nat (pred k) < 36).
  { split; [apply Z.div_le_lower_bound; lia|].
    apply Z.div_lt_upper_bound; [lia|]. destruct k; [lia|]. cbn [pred]. rewrite pow36_S in Hv. lia. }
  destruct (b36_digits k v) as [|c t] eqn:El; [cbn in H3; lia|].
  cbn [hd] in H4. pose proof (b36char_letter _ Hd) as Hc. rewrite <- H4 in Hc.
  split.
  - rewrite <- H3. rewrite firstn_app, Nat.sub_diag, firstn_all. cbn [firstn]. rewrite app_nil_r.
    rewrite strtol36_letters by assumption. exact H1.
  - cbn [app cur]. unfold lt_A. lia.
Qed.

(* ---------------------------------------------------------------- serial numbers *)

Theorem serial_roundtrip : forall n rest, 0 <= n <= 43770015 ->
  read_serial (field5 (encode_serial n) ++ rest) = n.
Proof.
  intros n rest Hn. unfold read_serial, field5, encode_serial.
  destruct (n <? 100000) eqn:E.
  - unfold print_dec. replace (n <? 0) with false by lia.
    destruct (ds_ok 11 5 n) as (H1 & H2 & H3 & H4); [lia|pw|].
    rewrite firstn_all2 by lia.
    assert (Hc : lt_A (cur (rjust 5 (ds 11 n) ++ rest)) = true).
    { unfold rjust. destruct (5 - length (ds 11 n))%nat; cbn [repeat app cur]; [|reflexivity].
      destruct (ds 11 n) as [|c t]; [congruence|]. inversion H2; subst. cbn.
      apply digit_not_space; assumption. }
    rewrite Hc. rewrite read_int_rjust_digits by assumption. exact H1.
  - destruct (read_base36_field 5 (n + 16696160) rest) as (Hv & Hc); [lia|pw|].
    unfold base36_encode.
    assert (Hr : rjust 5 (rjust 5 (b36_digits 5 (n + 16696160))) = rjust 5 (b36_digits 5 (n + 16696160))).
    { unfold rjust at 1. replace (5 - _)%nat with 0%nat; [reflexivity|].
      unfold rjust. rewrite app_length, repeat_length.
      destruct (b36_ok 5 5 (n + 16696160)) as (_ & _ & H3 & _); [lia|pw|left; pw|]. lia. }
    rewrite Hr, Hc, Hv. lia.
Qed.

(* ---------------------------------------------------------------- residue numbers *)

Lemma nth_c_app : forall a b, nth_c (length a) (a ++ b) = cur b.
Proof. intros. unfold nth_c. rewrite skipn_app, skipn_all, Nat.sub_diag. reflexivity. Qed.

Lemma seq_num_loop_blanks : forall k m s, seq_num_loop (k + m) (repeat 32 k ++ s) = seq_num_loop m s.
Proof. induction k; intros; [reflexivity|]. cbn. apply IHk. Qed.

Theorem seqid_roundtrip : forall n icode rest, -999 <= n <= 1223055 -> icode <> 13 -> icode <> 10 ->
  read_seq_id (field5 (write_seq_id n icode) ++ rest) = (Some n, icode).
Proof.
  intros n icode rest Hn Hi1 Hi2. unfold read_seq_id, field5, write_seq_id.
  destruct ((-1000 <? n) && (n <? 10000)) eqn:E.
  - (* decimal: [-]digits, at most 4 characters *)
    set (body := firstn 4 (print_dec n)).
    assert (Hb : exists sg l, body = sg ++ l /\ (sg = [] /\ 0 <= n /\ dv l = n \/ sg = [45] /\ n < 0 /\ dv l = - n) /\
                 alldig l /\ l <> [] /\ (length (sg ++ l) <= 4)%nat).
    { unfold body, print_dec. destruct (n <? 0) eqn:En.
      - destruct (ds_ok 11 3 (- n)) as (H1 & H2 & H3 & H4); [lia|pw|].
        exists [45], (ds 11 (- n)). cbn [app length]. rewrite firstn_all2 by (cbn [length]; lia).
        repeat split; try assumption; [right; repeat split; lia|lia].
      - destruct (ds_ok 11 4 n) as (H1 & H2 & H3 & H4); [lia|pw|].
        exists [], (ds 11 n). cbn [app]. rewrite firstn_all2 by lia.
        repeat split; try assumption. left; repeat split; lia. }
    destruct Hb as (sg & l & Hbody & Hsg & Hd & Hne & Hlen). rewrite Hbody.
    unfold rjust. rewrite app_length. cbn [length].
    set (p := (5 - (length (sg ++ l) + 1))%nat).
    assert (Hp : (p + length (sg ++ l) = 4)%nat) by (unfold p; lia).
    rewrite <- !app_assoc.
    assert (H4 : nth_c 4 (repeat 32 p ++ sg ++ l ++ [icode] ++ rest) = icode).
    { replace (repeat 32 p ++ sg ++ l ++ [icode] ++ rest) with ((repeat 32 p ++ sg ++ l) ++ icode :: rest)
        by (rewrite <- !app_assoc; reflexivity).
      replace 4%nat with (length (repeat 32 p ++ sg ++ l)); [apply nth_c_app|].
      rewrite app_length, repeat_length. rewrite app_length in Hp. rewrite app_length. lia. }
    rewrite H4. replace ((icode =? 13) || (icode =? 10)) with false by lia.
    f_equal.
    destruct l as [|c l']; [congruence|]. inversion Hd; subst.
    destruct (digit_not_space c H1) as (Hs & H45 & H43 & HA).
    assert (HltA : lt_A (cur (repeat 32 p ++ sg ++ (c :: l') ++ [icode] ++ rest)) = true).
    { destruct p; cbn [repeat app cur]; [|reflexivity].
      destruct Hsg as [(-> & _)|(-> & _)]; cbn; [exact HA|reflexivity]. }
    rewrite HltA.
    replace 4%nat with (p + length (sg ++ c :: l'))%nat by exact Hp.
    rewrite seq_num_loop_blanks.
    destruct Hsg as [(-> & Hn0 & Hv)|(-> & Hn0 & Hv)].
    + cbn [app length seq_num_loop cur]. rewrite Hs. f_equal.
      unfold read_int. change (S (length l')) with (length (c :: l')).
      rewrite skip_sp_stop by (cbn; exact Hs). cbn [cur].
      replace (c =? 45) with false by lia. replace (c =? 43) with false by lia.
      change (c :: l' ++ icode :: rest) with ((c :: l') ++ icode :: rest).
      rewrite digs_app by (constructor; assumption). exact Hv.
    + cbn [app length seq_num_loop cur]. change (is_cspace 45) with false. cbv iota. f_equal.
      unfold read_int. rewrite skip_sp_stop by reflexivity. cbn [cur adv pred]. change (45 =? 45) with true. cbv iota.
      change (c :: l' ++ icode :: rest) with ((c :: l') ++ icode :: rest).
      change (S (length l')) with (length (c :: l')).
      rewrite digs_app by (constructor; assumption). unfold dv in Hv. lia.
  - (* base 36, exactly 4 digits *)
    assert (Hn' : 10000 <= n) by lia.
    destruct (b36_ok 4 4 (n + 456560)) as (_ & _ & H3 & _); [lia|pw|left; pw|].
    unfold base36_encode.
    assert (Hr : rjust 5 (rjust 4 (b36_digits 4 (n + 456560)) ++ [icode]) = rjust 4 (b36_digits 4 (n + 456560)) ++ [icode]).
    { unfold rjust at 1. replace (5 - _)%nat with 0%nat; [reflexivity|].
      unfold rjust. rewrite !app_length, repeat_length. cbn [length]. lia. }
    rewrite Hr. rewrite <- app_assoc.
    destruct (read_base36_field 4 (n + 456560) ([icode] ++ rest)) as (Hv & Hc); [lia|pw|].
    rewrite Hc, Hv.
    assert (H4 : nth_c 4 (rjust 4 (b36_digits 4 (n + 456560)) ++ [icode] ++ rest) = icode).
    { replace 4%nat with (length (rjust 4 (b36_digits 4 (n + 456560)))) at 1; [apply nth_c_app|].
      unfold rjust. rewrite app_length, repeat_length. lia. }
    rewrite H4. replace ((icode =? 13) || (icode =? 10)) with false by lia.
    f_equal. f_equal. lia.
Qed.

(* ---------------------------------------------------------------- charge / altloc columns *)

Theorem charge_roundtrip : forall q, -9 <= q <= 9 ->
  let '(d, s) := write_charge q in read_charge d s = Some q.
Proof.
  intros q Hq. unfold write_charge.
  assert (q = -9 \/ q = -8 \/ q = -7 \/ q = -6 \/ q = -5 \/ q = -4 \/ q = -3 \/ q = -2 \/ q = -1 \/ q = 0 \/
          q = 1 \/ q = 2 \/ q = 3 \/ q = 4 \/ q = 5 \/ q = 6 \/ q = 7 \/ q = 8 \/ q = 9) as H by lia.
  repeat (destruct H as [->|H]; [reflexivity|]). subst; reflexivity.
Qed.

Theorem altloc_roundtrip : forall a, a <> 32 -> ~ (97 <= a <= 122) -> read_altloc (write_altloc a) = a.
Proof.
  intros a H L. unfold read_altloc, write_altloc. destruct (a =? 0) eqn:E; [apply Z.eqb_eq in E; subst; reflexivity|].
  replace ((97 <=? a) && (a <=? 122)) with false by lia. replace (a =? 32) with false by lia. reflexivity.
Qed.

(* a lower-case altloc is written as its capital: it does not come back *)
Lemma altloc_lowercase_refuted : read_altloc (write_altloc 97) = 65.
Proof. reflexivity. Qed.

(* boundary examples *)
Example serial_99999 : encode_serial 99999 = [57;57;57;57;57] /\ encode_serial 100000 = [65;48;48;48;48] /\
  encode_serial 43770015 = [90;90;90;90;90] /\ read_serial [65;48;48;48;48;32] = 100000.
Proof. vm_compute. repeat split. Qed.
Example seqid_9999 : write_seq_id 9999 32 = [57;57;57;57;32] /\ write_seq_id 10000 65 = [65;48;48;48;65] /\
  write_seq_id (-999) 32 = [45;57;57;57;32] /\ write_seq_id 1223055 32 = [90;90;90;90;32] /\
  read_seq_id [65;48;48;48;65] = (Some 10000, 65) /\ read_seq_id [32;32;45;53;32;88] = (Some (-5), 32).
Proof. vm_compute. repeat split. Qed.
(* outside the range the field is wrong: the statement's bounds are tight *)
Example serial_too_big : read_serial (field5 (encode_serial 43770016)) <> 43770016.
Proof. vm_compute. discriminate. Qed.
Example seqid_too_small : fst (read_seq_id (field5 (write_seq_id (-1000) 32))) <> Some (-1000).
Proof. vm_compute. discriminate. Qed.
