(* _atom_site as a flat table: flattening (src/to_mmcif.cpp add_cif_atoms: nested loops over models, chains,
   residues, atoms) and regrouping (src/mmcif.cpp make_structure_from_block: model switch on a change of
   pdbx_PDB_model_num with find_or_add_model, chain switch on a change of auth_asym_id (always a new Chain),
   Chain::find_or_add_residue by ResidueId::matches - the `resi` pointer test is only a shortcut, it points to
   the first matching residue of the chain). Names are byte strings after cif::quote / as_string (C01). *)
From GV Require Import Base.Str.
Local Open Scope Z_scope.

Definition rid : Type := str * Z * Z.            (* residue name, auth_seq_id, insertion code *)
Definition atom : Type := str * Z.               (* atom name, altloc *)
Definition residue : Type := rid * list atom.
Definition chain : Type := str * list residue.
Definition model : Type := Z * list chain.
Definition structure : Type := list model.
Definition row : Type := Z * str * rid * atom.   (* model number, chain name, residue id, atom *)

(* ResidueId::matches without segment: name, number, insertion code up to letter case (SeqId::operator==) *)
Definition rid_match (a b : rid) : bool :=
  let '(n1, k1, i1) := a in let '(n2, k2, i2) := b in
  str_eqb n1 n2 && (k1 =? k2) && (Z.land (Z.lxor i1 i2) 223 =? 0).

(* ---------------------------------------------------------------- flatten *)
Definition rows_of_residue (num : Z) (cn : str) (r : residue) : list row :=
  map (fun a => (num, cn, fst r, a)) (snd r).
Definition rows_of_chain (num : Z) (c : chain) : list row :=
  flat_map (rows_of_residue num (fst c)) (snd c).
Definition rows_of_model (m : model) : list row := flat_map (rows_of_chain (fst m)) (snd m).
Definition to_rows (s : structure) : list row := flat_map rows_of_model s.

(* ---------------------------------------------------------------- regroup *)
(* Chain::find_or_add_residue + atoms.emplace_back *)
Fixpoint add_atom (rs : list residue) (r : rid) (a : atom) : list residue :=
  match rs with
  | [] => [(r, [a])]
  | (r0, l) :: t => if rid_match r0 r then (r0, l ++ [a]) :: t else (r0, l) :: add_atom t r a
  end.

Definition upd_last {A} (f : A -> A) (l : list A) : list A :=
  match rev l with
  | [] => []
  | x :: t => rev t ++ [f x]
  end.
Definition last_name (cs : list chain) : option str :=
  match rev cs with [] => None | c :: _ => Some (fst c) end.

(* inside the current model: chain switch, then the residue/atom *)
Definition add_to_chains (cs : list chain) (chain_ok : bool) (cn : str) (r : rid) (a : atom) : list chain :=
  let same := match last_name cs with Some n => chain_ok && str_eqb n cn | None => false end in
  let cs1 := if same then cs else cs ++ [(cn, [])] in
  upd_last (fun c : chain => (fst c, add_atom (snd c) r a)) cs1.

Fixpoint has_model (num : Z) (ms : structure) : bool :=
  match ms with [] => false | (n, _) :: t => (n =? num) || has_model num t end.
Fixpoint upd_model (num : Z) (f : list chain -> list chain) (ms : structure) : structure :=
  match ms with
  | [] => []
  | (n, cs) :: t => if n =? num then (n, f cs) :: t else (n, cs) :: upd_model num f t
  end.

(* reader state: models so far, the model number of the previous row (None before the first row),
   whether the chain pointer is set *)
Definition rstate : Type := structure * option Z * bool.

Definition add_row (st : rstate) (rw : row) : rstate :=
  let '(ms, cur, chain_ok) := st in
  let '(num, cn, r, a) := rw in
  let switch := match cur with Some n => negb (n =? num) | None => true end in
  let ms1 := if switch && negb (has_model num ms) then ms ++ [(num, [])] else ms in
  let ok1 := if switch then false else chain_ok in
  (upd_model num (fun cs => add_to_chains cs ok1 cn r a) ms1, Some num, true).

Definition of_rows (rows : list row) : structure :=
  let '(ms, _, _) := fold_left add_row rows ([], None, false) in ms.
