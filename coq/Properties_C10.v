(* Property C10: symmetry operators obey exact algebra and a lossless triplet notation.
   Statements only; proofs in Sym/OpProofs.v (unbounded in the operator entries) and
   Sym/SgProofs.v (triplet round trip, kernel-evaluated for every operation of every table row). *)
From GV Require Import Sym.Op Sym.Triplet Sym.OpProofs Sym.SgCheck Sym.SgProofs Sym.TripletRT.
Local Open Scope Z_scope.

Theorem C10_wrap_is_mod : forall t, wrap1 t = t mod 24.
Proof. exact wrap1_mod. Qed.
Print Assumptions C10_wrap_is_mod.

(* composition = applying one operator after the other to (rational) coordinates, whenever the
   product is representable in 1/24 units *)
Theorem C10_combine_agrees_with_apply :
  forall a b x d, representable a b ->
    map_v3 (fun z => 24 * z) (apply_scaled (combine' a b) x d)
    = apply_scaled a (apply_scaled b x d) (24 * d).
Proof. exact combine_agrees_with_apply. Qed.
Print Assumptions C10_combine_agrees_with_apply.

Theorem C10_mul_wrap : forall a b,
  rot (op_mul a b) = rot (combine' a b) /\
  (let '(x,y,z) := tran (op_mul a b) in let '(x',y',z') := tran (combine' a b) in
   x = x' mod 24 /\ y = y' mod 24 /\ z = z' mod 24).
Proof. exact mul_wrap. Qed.
Print Assumptions C10_mul_wrap.

(* an operator with integral unimodular rotation part composed with its inverse is the identity *)
Theorem C10_inverse_exact :
  forall m00 m01 m02 m10 m11 m12 m20 m21 m22 t0 t1 t2 nt,
  let m : m33 := ((m00,m01,m02),(m10,m11,m12),(m20,m21,m22)) in
  (det_rot m = 1 \/ det_rot m = -1) ->
  let a := mkOp (map_m33 (fun x => 24 * x) m) (t0,t1,t2) nt in
  exists inv, inverse a = Some inv /\
    rot (combine' a inv) = id_rot /\ rot (combine' inv a) = id_rot /\
    tran (combine' a inv) = (0,0,0) /\ tran (combine' inv a) = (0,0,0).
Proof. exact inverse_exact_unimodular. Qed.
Print Assumptions C10_inverse_exact.

(* action on Miller indices is the transpose action, dual to the action on coordinates,
   with phase shift -2 pi h.t / 24 *)
Theorem C10_hkl_is_transpose : forall a h, apply_to_hkl_nodiv a h = mat_vec_raw (transpose (rot a)) h.
Proof. exact apply_to_hkl_is_transpose. Qed.
Print Assumptions C10_hkl_is_transpose.

Theorem C10_hkl_duality : forall a h x,
  dot (apply_to_hkl_nodiv a h) x + dot h (tran a) = dot h (add_v3 (mat_vec_raw (rot a) x) (tran a)).
Proof. exact hkl_duality. Qed.
Print Assumptions C10_hkl_duality.

Theorem C10_phase_transport : forall a b h,
  24 * dot h (tran a) + dot (apply_to_hkl_nodiv a h) (tran b)
  = dot h (add_v3 (map_v3 (fun x => x * DEN) (tran a)) (mat_vec_raw (rot a) (tran b))).
Proof. exact phase_transport_composes. Qed.
Print Assumptions C10_phase_transport.

(* the fraction printed for w/24 is w/24 in lowest terms *)
Theorem C10_fraction_lowest_terms : forall w, 0 < w ->
  let '(n, d) := get_op_fraction w in
  n * 24 = w * d /\ 0 < n /\
  (d = 1 \/ d = 2 \/ d = 3 \/ d = 4 \/ d = 6 \/ d = 8 \/ d = 12 \/ d = 24) /\
  (Z.rem d 2 = 0 -> Z.rem n 2 <> 0) /\ (Z.rem d 3 = 0 -> Z.rem n 3 <> 0).
Proof. exact get_op_fraction_spec. Qed.
Print Assumptions C10_fraction_lowest_terms.

(* LOSSLESS TRIPLET NOTATION, unbounded, ALL SIX LETTER STYLES: for every operator whose rotation rows
   (columns, for a reciprocal-space operator) are non-zero - in particular every invertible one - with
   integer entries in 1/24 units of at most 10^6 in absolute value (the repaired parser refuses larger numbers so
   that its int arithmetic cannot overflow), printing in x/X/a/A (resp. h/H) letters and parsing back
   yields the identical matrix and translation and the notation the letters imply. Proved once in a
   Section over an abstract letter set (TripletRT.v) by induction over the printed terms (strtol inverts
   decimal printing, fractions in lowest terms divide exactly) and instantiated for the six styles. *)
Theorem C10_row_roundtrip : forall x y z w nt, nt_ok 120 nt -> (x, y, z) <> (0, 0, 0) -> row_bounded x y z w ->
  parse_triplet_part (make_triplet_part (x, y, z) w 120) nt = Ok ((x, y, z, w), 120).
Proof. exact (row_roundtrip_nt 120 Lx 120 Ix1 Fx Cx Ax). Qed.
Print Assumptions C10_row_roundtrip.

Theorem C10_triplet_roundtrip_real : forall a st ntv, real_style st ntv -> nota a <> 104 -> rows_nonzero a -> op_bounded a ->
  exists s, triplet a st = Some s /\ parse_triplet s 32 = Ok (mkOp (rot a) (tran a) ntv).
Proof. exact triplet_roundtrip_real. Qed.
Print Assumptions C10_triplet_roundtrip_real.

Theorem C10_triplet_roundtrip_xyz : forall a, (nota a = 32 \/ nota a = 120) -> rows_nonzero a -> op_bounded a ->
  exists s, triplet a 32 = Some s /\ parse_triplet s 32 = Ok (mkOp (rot a) (tran a) 120).
Proof. exact triplet_roundtrip_xyz. Qed.
Print Assumptions C10_triplet_roundtrip_xyz.

Theorem C10_triplet_roundtrip_hkl : forall a st, (st = 104 \/ st = 72) -> nota a = 104 -> tran a = (0,0,0) ->
  cols_nonzero a -> op_bounded a ->
  exists s, triplet a st = Some s /\ parse_triplet s 32 = Ok (mkOp (rot a) (0,0,0) 104).
Proof. exact triplet_roundtrip_hkl. Qed.
Print Assumptions C10_triplet_roundtrip_hkl.

(* the hypotheses are satisfiable: a non-trivial operator in each family *)
Example C10_roundtrip_nonvacuous :
  real_style 97 96 /\ rows_nonzero (mkOp ((0,-24,0),(24,-24,0),(0,0,24)) (0,0,8) 32) /\
  cols_nonzero (mkOp ((12,12,0),(-12,12,0),(0,0,24)) (0,0,0) 104) /\
  op_bounded (mkOp ((0,-24,0),(24,-24,0),(0,0,24)) (0,0,8) 32) /\ op_bounded (mkOp ((12,12,0),(-12,12,0),(0,0,24)) (0,0,0) 104).
Proof. exact roundtrip_nonvacuous. Qed.

(* the bound is needed: the pinned snapshot computed 24 * n in int for any n; the repaired parser refuses n > 10^6 *)
Theorem C10_big_number_refused : parse_triplet_part [50;48;48;48;48;48;48;48;120] 32 = Fail.
Proof. exact big_number_refused. Qed.
Print Assumptions C10_big_number_refused.

(* print -> parse round trip for every operation of every tabulated group (finite: 564 rows),
   and exact inverses of all 51 basis operators (including the non-unimodular ones).
   (kept as a cross-check of the unbounded theorems above on the concrete table, all styles). *)
Theorem C10_triplet_roundtrip_partial : forall r, In r sg_table ->
  exists g, operations r = HOk g /\ triplets_ok_b g = true.
Proof.
  intros r H. destruct (table_groups r H) as [g [E S]]. exists g. split; [exact E|exact (gs_triplets _ _ S)].
Qed.
Print Assumptions C10_triplet_roundtrip_partial.

Theorem C10_basisops_exact_inverse :
  forallb (fun s => match parse_triplet s 32 with Ok b => exact_inverse_b b | _ => false end) basisops = true.
Proof. exact basisops_exact. Qed.
Print Assumptions C10_basisops_exact_inverse.
