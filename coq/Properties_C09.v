(* Property C09: maps survive write-read; axis order and ASU-only storage do not change the map.
   Statements only; proofs live in Map/*Proofs.v. *)
From GV Require Import Map.GridIndex Map.GridIndexProofs Map.GridOps Map.Setup Map.MapSg Map.ScaledOps Map.SetupProofs Map.BrickEnd.
Local Open Scope Z_scope.

(* modulo() (C remainder semantics) is the mathematical residue for every int a and positive n *)
Theorem C09_modulo_spec : forall a n, n > 0 -> modulo a n = a mod n.
Proof. exact modulo_spec. Qed.
Print Assumptions C09_modulo_spec.

(* index_n: one conditional correction per axis is right exactly under -n <= a < 2n *)
Theorem C09_index_n_spec : forall nu nv nw u v w, nu > 0 -> nv > 0 -> nw > 0 ->
  - nu <= u < 2 * nu -> - nv <= v < 2 * nv -> - nw <= w < 2 * nw ->
  index_n nu nv nw u v w = index_q nu nv (u mod nu) (v mod nv) (w mod nw) /\
  0 <= index_n nu nv nw u v w < nu * nv * nw.
Proof. exact index_n_spec. Qed.
Print Assumptions C09_index_n_spec.

Theorem C09_index_n_needs_range : forall u n, n > 0 -> (u < - n \/ u >= 2 * n) -> ~ (0 <= wrap_n u n < n).
Proof. exact wrap_n_outside. Qed.
Print Assumptions C09_index_n_needs_range.

(* index_s is total for positive dimensions, stays inside the buffer and is periodic *)
Theorem C09_index_s_spec : forall nu nv nw u v w, nu > 0 -> nv > 0 -> nw > 0 ->
  index_s nu nv nw u v w = index_q nu nv (u mod nu) (v mod nv) (w mod nw) /\
  0 <= index_s nu nv nw u v w < nu * nv * nw.
Proof. exact index_s_spec. Qed.
Print Assumptions C09_index_s_spec.

(* For every tabulated setting and EVERY grid size accepted by check_grid_factors (not only those tested), each
   re-scaled operation maps an in-grid point into [-n, 2n) on each axis: the precondition of index_n in
   symmetrize_using_ops, get_asu_mask and find_asu_brick. (Checker over the 564 regenerated rows by vm_compute
   + a soundness proof of the checker for all sizes and points.) *)
Theorem C09_scaled_ops_in_range : forall r, In r sg_table ->
  forall nu nv nw, nu > 0 -> nv > 0 -> nw > 0 -> check_grid_factors (row_gops r) nu nv nw = true ->
  forall o, In o (scaled_ops_except_id (sg_number r) (row_gops r) nu nv nw) ->
  forall u v w, 0 <= u < nu -> 0 <= v < nv -> 0 <= w < nw ->
  in_range3 nu nv nw (gapply o (u, v, w)).
Proof. exact scaled_ops_in_range. Qed.
Print Assumptions C09_scaled_ops_in_range.

(* MAPC/MAPR/MAPS accepted by axis_positions are exactly the six axis orders *)
Theorem C09_axis_orders : (forall axes pos, axis_positions axes = GridIndex.Ok pos -> is_perm pos) /\
  (forall pos, is_perm pos -> exists axes, axis_positions axes = GridIndex.Ok pos).
Proof. exact (conj axis_positions_perm axis_positions_complete). Qed.
Print Assumptions C09_axis_orders.

(* setup(): for each of the six axis orders, any start and any extent not exceeding the sampling, in each of the
   three set-up modes, file voxel (c,r,s) ends up at grid'[(start + crs) permuted mod sampling], the dimensions and
   axis words are the new ones, and every voxel not covered by the file holds the default value. The target
   does not mention the axis order except through the permutation, so two files storing the same density in
   different axis orders give equal grids. *)
Theorem C09_setup_permutation : forall h g dflt smode pos s0 s1 s2 n0 n1 n2 nu nv nw,
  g_ao g = 0 -> setup_checks h (g_n g) smode = true ->
  axis_positions (h_axes h) = GridIndex.Ok pos -> h_start h = (s0, s1, s2) -> g_n g = (n0, n1, n2) ->
  n0 > 0 -> n1 > 0 -> n2 > 0 ->
  fits_int (s0 + n0) = true -> fits_int (s1 + n1) = true -> fits_int (s2 + n2) = true ->
  (if smode =? 2 then (sel (n0, n1, n2) (sel pos 0), sel (n0, n1, n2) (sel pos 1), sel (n0, n1, n2) (sel pos 2))
   else h_samp h) = (nu, nv, nw) ->
  nu > 0 -> nv > 0 -> nw > 0 -> nu * nv * nw <= max_alloc ->
  sel (n0, n1, n2) (sel pos 0) <= nu /\ sel (n0, n1, n2) (sel pos 1) <= nv /\ sel (n0, n1, n2) (sel pos 2) <= nw ->
  length (g_data g) = Z.to_nat (n0 * n1 * n2) ->
  exists h' g' symm, setup_core h g dflt smode = GridIndex.Ok (h', g', symm) /\
    g_n g' = (nu, nv, nw) /\ h_n h' = (nu, nv, nw) /\ h_axes h' = (1, 2, 3) /\ h_samp h' = h_samp h /\
    length (g_data g') = Z.to_nat (nu * nv * nw) /\
    let st := if smode =? 2 then (0, 0, 0) else (s0, s1, s2) in
    (forall c r s, 0 <= c < n0 -> 0 <= r < n1 -> 0 <= s < n2 ->
       nth (Z.to_nat (target_index st (n0, n1, n2) pos (nu, nv, nw) c r s)) (g_data g') dflt
       = nth (Z.to_nat ((s * n1 + r) * n0 + c)) (g_data g) dflt) /\
    (forall i, 0 <= i < nu * nv * nw ->
       (forall c r s, 0 <= c < n0 -> 0 <= r < n1 -> 0 <= s < n2 -> target_index st (n0, n1, n2) pos (nu, nv, nw) c r s <> i) ->
       nth (Z.to_nat i) (g_data g') dflt = dflt).
Proof. exact setup_permutation. Qed.
Print Assumptions C09_setup_permutation.

(* the end indices of the ASU brick (AsuBrick::uvw_end, Map/BrickEnd.v): along an axis sampled with n points, the grid
   points below the end are EXACTLY the points u with u/n <= size/24 (bound included, size < 24) or u/n < size/24
   (size = 24: the whole cell, end = n) - no point of the brick is cut off and none outside it is taken, for every n *)
Theorem C09_brick_end_exact : forall size n u, 0 <= size -> 0 < n -> 0 <= u ->
  (u < uvw_end1 size n <-> if brick_incl size then 24 * u <= size * n else 24 * u < size * n).
Proof. exact uvw_end1_spec. Qed.
Print Assumptions C09_brick_end_exact.
