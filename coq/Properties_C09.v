(* Property C09: maps survive write-read; axis order and ASU-only storage do not change the map.
   Statements only; proofs live in Map/*Proofs.v. *)
From GV Require Import Map.GridIndex Map.GridIndexProofs.
Local Open Scope Z_scope.

(* modulo() (C remainder semantics) is the mathematical residue for every int a and positive n *)
Theorem C09_modulo_spec : forall a n, n > 0 -> modulo a n = a mod n.
Proof. exact modulo_spec. Qed.
Print Assumptions C09_modulo_spec.

(* index_n: one conditional correction per axis is right exactly under -n <= a < 2n *)
Theorem C09_index_n_spec : forall nu nv nw u v w, nu > 0 -> nv > 0 -> nw > 0 ->
  - nu <= u < 2 * nu -> - nv <= v < 2 * nv -> - nw <= w < 2 * nw ->
  index_n nu nv nw u v w = index_q nu nv (u mod nu) (v mod nv) (w mod nw) /\
  0 <= index_n nu nv nw u v w < nu * nv * nw.
Proof. exact index_n_spec. Qed.
Print Assumptions C09_index_n_spec.

Theorem C09_index_n_needs_range : forall u n, n > 0 -> (u < - n \/ u >= 2 * n) -> ~ (0 <= wrap_n u n < n).
Proof. exact wrap_n_outside. Qed.
Print Assumptions C09_index_n_needs_range.

(* index_s is total for positive dimensions, stays inside the buffer and is periodic *)
Theorem C09_index_s_spec : forall nu nv nw u v w, nu > 0 -> nv > 0 -> nw > 0 ->
  index_s nu nv nw u v w = index_q nu nv (u mod nu) (v mod nv) (w mod nw) /\
  0 <= index_s nu nv nw u v w < nu * nv * nw.
Proof. exact index_s_spec. Qed.
Print Assumptions C09_index_s_spec.
