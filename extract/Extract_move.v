From Coq Require Extraction ExtrOcamlBasic.
From GV Require Import Sym.AsuDefs Move.Move Move.Expand.
Extraction Blacklist String List Nat.
Extraction "move.ml" expand_entry move_entry apply_phase swaps_anomalous original_from row_asu operations sg_table.
