From Coq Require Extraction ExtrOcamlBasic.
From GV Require Import Sym.AsuDefs Move.Move Move.Expand Move.PlusMinus Move.ReindexRows.
Extraction Blacklist String List Nat.
Extraction "move.ml" expand_entry move_entry apply_phase swaps_anomalous original_from pm_pairs apply_swaps reindex_rows row_asu operations sg_table.
