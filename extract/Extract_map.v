(* Extraction of the map-family model. ExtrOcamlBasic only: Z/positive stay Coq datatypes. *)
From Coq Require Extraction ExtrOcamlBasic.
From GV Require Import Map.GridIndex Map.Arr Map.GridOps Map.Setup Map.MapSg Map.Stream Map.GzGrow Map.BrickEnd.
Extraction Blacklist String List Nat.
(* `modulo` clashes with a name of the extracted arithmetic library: export it under a fixed name *)
Definition grid_modulo := modulo.
Extraction "mapm.ml"
  grid_modulo modulo_traps index_n index_s index_n64 index_s64 zseq
  find_grid_factors are_directions_symmetry_related row_gops row_at row_check_grid_factors row_scaled_ops
  reducer symmetrize_using_ops get_asu_mask nan_z
  axis_positions setup_core setup_sg grid_of_header translate_mask prepared_header prepared_header_words
  setup_sg_orig point_count step step_orig range_ok uncompress grow grow_orig
  sg_table order uvw_end1.
