(* Extraction of the geometry-family model (C11 unit cell at Q(sqrt D), C20 integer walk). *)
From Coq Require Extraction ExtrOcamlBasic.
From Coq Require Import QArith.
From GV Require Import Geo.Cell Geo.CellQ Geo.Neighbor.
Extraction Blacklist String List Nat.
Extraction "geo.ml"
  QO qcell q_discr qcell_valid qe_pos Qred Qplus Qmult Qminus Qopp Qdiv
  volume ar br cr car cbr cgr orth frac metric_tensor reciprocal_metric_tensor reciprocal
  calculate_1_d2 orthogonalize_box box_has_corners distance_sq find_nearest_pbc_image
  compat_devs is_compatible changed_basis_backward_metric
  walk walk_clamped bins_to_visit shift.
