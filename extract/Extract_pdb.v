(* Extraction of the PDB-family model. ExtrOcamlBasic only: Z/positive/nat stay Coq datatypes. *)
From Coq Require Extraction ExtrOcamlBasic.
From GV Require Import Base.Str Pdb.Hy36 Pdb.Records Pdb.AtomSite Pdb.Subchain Pdb.AtomLine Pdb.CcdAlias.
Extraction Blacklist String List Nat.
Extraction "pdb.ml"
  encode_serial field5 read_serial write_seq_id read_seq_id base36_encode read_int read_string read_charge
  copy_line next_line parse_records run_raw empty_pst zero_buf
  to_rows of_rows model_names atom_line read_atom
  shorten_table apply_shorten apply_restore.
