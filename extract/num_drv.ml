(* Driver for the number family (C12): recomputes each harness line with the extracted Coq model.
   Doubles are IEEE bit patterns in hex; Z values beyond 63 bits are converted digit by digit. *)
let zi = z_of_int and iz = int_of_z
let z16 = zi 16 and z10 = zi 10
let z_of_hex (h : string) : z =
  let r = ref Z0 in
  String.iter (fun c ->
    let d = if c <= '9' then Char.code c - 48 else (Char.code c lor 32) - 87 in
    r := Z.add (Z.mul !r z16) (zi d)) h;
  !r
let hex_of_z (v : z) (width : int) : string =
  let b = Bytes.make width '0' in
  let r = ref v in
  for i = width - 1 downto 0 do
    let d = iz (Z.modulo !r z16) in
    Bytes.set b i "0123456789abcdef".[d];
    r := Z.div !r z16
  done;
  Bytes.to_string b
let rec dec_of_z (v : z) : string =
  if Z.ltb v Z0 then "-" ^ dec_of_z (Z.opp v)
  else if Z.ltb v z10 then string_of_int (iz v)
  else dec_of_z (Z.div v z10) ^ string_of_int (iz (Z.modulo v z10))
let bits_s = function Some b -> hex_of_z b 16 | None -> "nan"
let str_of_hex h = str_of_string (hex_decode h)
let hex_of_str s = hex_encode (string_of_str s)
let b01 b = if b then "1" else "0"
let rec cut_nul = function [] -> [] | c :: t -> if c = Z0 then [] else c :: cut_nul t
let rec take n l = if n <= 0 then [] else match l with [] -> [] | x :: t -> x :: take (n - 1) t
let len = List.length
let has_nul s = List.exists (fun c -> c = Z0) s
(* "g=... c=..." helpers: the libc part of a got line *)
let c_part got = match String.index_opt got ' ' with
  | Some i -> String.sub got (i + 1) (String.length got - i - 1) | None -> ""
let strtol_s field = let (v, rest) = strtol10 field in
  Printf.sprintf "%s,%d" (dec_of_z v) (len field - len rest)
(* a hexadecimal prefix after blanks/sign: strtod reads it, fast_float does not *)
let rec skip_ws = function c :: t when (let k = iz c in k = 32 || (k >= 9 && k <= 13)) -> skip_ws t | l -> l
let hexish s =
  let s = skip_ws s in
  let s = (match s with c :: t when iz c = 43 || iz c = 45 -> t | _ -> s) in
  (match s with a :: b :: _ when iz a = 48 && (iz b lor 32) = 120 -> true | _ -> false)
let infnanish s =
  let s = skip_ws s in
  let s = (match s with c :: t when iz c = 43 || iz c = 45 -> t | _ -> s) in
  (match s with a :: _ -> let k = iz a lor 32 in k = 105 || k = 110 | _ -> false)

let handle_got cmd args got : string option =
  let w = words args in
  match cmd, w with
  | "tbl", [c] ->
    let z = zi (int_of_string c) in
    let m = b01 (g_is_space z) ^ b01 (g_is_digit z) ^ b01 (g_is_blank z) in
    Some (m ^ " " ^ m)
  | "sti", [h; chk; l] ->
    let s = str_of_hex h and l = int_of_string l in
    let g = (match string_to_int s (chk = "1") (nat_of_int l) with Some v -> dec_of_z v | None -> "EXC") in
    let field = cut_nul s in
    let field = if l > 0 then take l field else field in
    Some (Printf.sprintf "g=%s c=%s" g (strtol_s field))
  | "rint", [h; l] ->
    (match string_to_int (str_of_hex h) false (nat_of_int (int_of_string l)) with
     | Some v -> Some (dec_of_z v) | None -> Some "EXC")
  | "satoi", [h] ->
    let s = str_of_hex h in
    let (v, rest) = simple_atoi s in
    Some (Printf.sprintf "g=%s,%d c=%s" (dec_of_z v) (len s - len rest) (strtol_s (cut_nul s)))
  | "nsatoi", [h] ->
    let s = str_of_hex h in
    let (v, rest) = no_sign_atoi s in
    (* strtol reads a sign that no_sign_atoi does not: libc part predicted, gemmi part as modelled *)
    Some (Printf.sprintf "g=%s,%d c=%s" (dec_of_z v) (len s - len rest) (strtol_s (cut_nul s)))
  (* the repaired (unsigned-accumulating) readers on numbers of any size: gemmi's part only *)
  | "wsti", [h; chk; l] ->
    (match string_to_int_u (str_of_hex h) (chk = "1") (nat_of_int (int_of_string l)) with
     | Some v -> Some (dec_of_z v) | None -> Some "EXC")
  | "wsatoi", [h] ->
    let s = str_of_hex h in
    let (v, rest) = simple_atoi_u s in Some (Printf.sprintf "%s,%d" (dec_of_z v) (len s - len rest))
  | "wnsatoi", [h] ->
    let s = str_of_hex h in
    let (v, rest) = no_sign_atoi_u s in Some (Printf.sprintf "%s,%d" (dec_of_z v) (len s - len rest))
  | "asint", [h] ->
    (match string_to_int (str_of_hex h) true O with Some v -> Some (dec_of_z v) | None -> Some "EXC")
  | "num", [h] ->
    let s = str_of_hex h in
    let g = as_number_bits s in
    let gs = Printf.sprintf "g=%s,%s" (bits_s g) (b01 (g <> None)) in
    let cp = c_part got in
    let cs = (match (if has_nul s then None else cif_number s) with
      | Some (d, rest) when is_cif_numb s ->
        (* strtod reads the number part (not the s.u.) and gives the same nearest double *)
        let (b, _) = nearest_full d in
        let er = (match List.rev (String.split_on_char ',' cp) with e :: _ -> e | [] -> "?") in
        Printf.sprintf "c=%s,%d,%s" (hex_of_z b 16) (len s - len rest) er
      | _ -> cp) in
    Some (gs ^ " " ^ cs)
  | "atof", [h] ->
    let s = str_of_hex h in
    (match fast_atof (cut_nul s) with
     | None -> None
     | Some (b, rest) ->
       let gs = Printf.sprintf "g=%s,%d" (hex_of_z b 16) (len (cut_nul s) - len rest) in
       let cp = c_part got in
       let s2 = (match skip_ws (cut_nul s) with c :: u when iz c = 43 -> u | t -> t) in
       let parsed = len rest < len s2 in
       let cs = if parsed && not (hexish s) then
           (let er = (match List.rev (String.split_on_char ',' cp) with e :: _ -> e | [] -> "?") in
            Printf.sprintf "c=%s,%d,%s" (hex_of_z b 16) (len (cut_nul s) - len rest) er)
         else cp in
       Some (gs ^ " " ^ cs))
  | "rdbl", [h; l] ->
    let s = str_of_hex h and l = int_of_string l in
    let padded = s @ [Z0; Z0; Z0; Z0; Z0; Z0; Z0; Z0] in
    if l > len padded then Some "skip" else
    (match read_double padded (nat_of_int l) with
     | None -> None
     | Some b ->
       let field = cut_nul (take l padded) in
       let cp = c_part got in
       let parsed = (match fast_atof field with Some (_, rest) -> len rest < len field | None -> false) in
       let cs = if parsed && not (hexish field) && not (infnanish field) then
           (match String.split_on_char ',' cp with
            | _ :: tl -> "c=" ^ String.concat "," (hex_of_z b 16 :: tl) | [] -> cp)
         else cp in
       Some (Printf.sprintf "g=%s %s" (hex_of_z b 16) cs))
  | "prec", [p; bh] ->
    let bits = z_of_hex bh and p = int_of_string p in
    let txt = str_of_hex got in
    (match decode_bits bits with
     | None -> None
     | Some ((neg, q), k) ->
       (* |d| < 1e8  <=>  q * 2^k < 10^8 : decided on the correctly rounded %.0f magnitude *)
       let kz = iz k in
       let lhs = Z.mul q (Z.pow (zi 2) (zi (max kz 0))) in
       let rhs = Z.mul (zi 100000000) (Z.pow (zi 2) (zi (max (- kz) 0))) in
       let small = Z.ltb lhs rhs in
       if small then
         (if printed_ok bits txt (Some (zi p)) (zi 0) then Some got
          else (match print_fixed bits (nat_of_int p) with Some t -> Some (hex_of_str t) | None -> None))
       else
         (if printed_ok bits txt None (zi 6) then Some got else Some "<not within half a unit of %g>"))
  | "tostr", [kind; bh] ->
    let bits = if kind = "d" then z_of_hex bh
      else z_of_hex (Printf.sprintf "%016Lx" (Int64.bits_of_float (Int32.float_of_bits (Int32.of_string ("0x" ^ bh))))) in
    let txt = str_of_hex got in
    (match decode_bits bits with
     | None -> None
     | Some _ ->
       if printed_ok bits txt None (zi (if kind = "d" then 9 else 6)) then Some got
       else Some "<not within half a unit of the last digit>")
  | _ -> None

(* serve gives (cmd, args); the got column is needed too: re-read through a wrapper *)
let () =
  let n = ref 0 and bad = ref 0 and skipped = ref 0 in
  (try
    while true do
      let line = input_line stdin in
      match split_tab line with
      | [cmd; args; got] ->
        incr n;
        (match (try handle_got cmd args got with e -> Some ("MODEL-ERROR " ^ Printexc.to_string e)) with
         | None -> incr skipped
         | Some exp ->
           if exp <> got then begin
             incr bad;
             if !bad <= 200 then Printf.printf "MISMATCH\t%s\t%s\timpl=%s\tmodel=%s\n" cmd args got exp
           end)
      | _ -> ()
    done
  with End_of_file -> ());
  Printf.printf "SUMMARY\t%d\t%d\t%d\n" !n !bad !skipped
