(* Driver for the MTZ family: recomputes each harness line with the extracted Coq model. *)
let zi = z_of_int and iz = int_of_z
let s2l = str_of_string and l2s = string_of_str
type cursor = { mutable toks : string list }
let next c = match c.toks with x :: t -> c.toks <- t; x | [] -> failwith "tok"
let nint c = int_of_string (next c)
let nstr c = hex_decode (next c)
let rec times n f = if n <= 0 then [] else let x = f () in x :: times (n - 1) f
let hexl l = hex_encode (l2s l)

(* like prelude's serve, but the model also sees the implementation's result (abstract float texts) *)
let serve3 (f : string -> string -> string -> string option) =
  let n = ref 0 and bad = ref 0 and skipped = ref 0 in
  (try
    while true do
      let line = input_line stdin in
      match split_tab line with
      | [cmd; args; got] ->
        incr n;
        (match (try f cmd args got with e -> Some ("MODEL-ERROR " ^ Printexc.to_string e)) with
         | None -> incr skipped
         | Some exp ->
           if exp <> got then begin
             incr bad;
             if !bad <= 200 then Printf.printf "MISMATCH\t%s\t%s\timpl=%s\tmodel=%s\n" cmd args got exp
           end)
      | _ -> ()
    done
  with End_of_file -> ());
  Printf.printf "SUMMARY\t%d\t%d\t%d\n" !n !bad !skipped

type spec = { sp_title : string; sp_nrefl : int; sp_sort : int list;
              sp_dss : (int * string * string * string) list;
              sp_cols : (string * int * int * string) list;
              sp_batches : (int * string * string list) list;
              sp_hist : string list }

let parse_spec args =
  let c = { toks = words args } in
  let _sg = nstr c in
  let title = nstr c in
  let _valm = next c in
  let sort = times 5 (fun () -> nint c) in
  let _ = times 6 (fun () -> next c) in
  let _symmode = nint c in
  let nrefl = nint c in
  let _seed = next c in let _mode = next c in
  let nds = nint c in
  let dss = times nds (fun () ->
    let id = nint c in let p = nstr c in let cr = nstr c in let nm = nstr c in
    let _ = times 7 (fun () -> next c) in (id, p, cr, nm)) in
  let ncol = nint c in
  let cols = times ncol (fun () ->
    let l = nstr c in let ty = nint c in let ds = nint c in let src = nstr c in (l, ty, ds, src)) in
  let nb = nint c in
  let batches = times nb (fun () ->
    let num = nint c in let t = nstr c in
    let ax = List.filter (fun a -> a <> "") (times 3 (fun () -> nstr c)) in
    (num, t, ax)) in
  let nh = nint c in
  let hist = times nh (fun () -> nstr c) in
  { sp_title = title; sp_nrefl = nrefl; sp_sort = sort; sp_dss = dss; sp_cols = cols;
    sp_batches = batches; sp_hist = hist }

(* split the implementation's result "X ... H hex P ..." *)
let split_got got =
  let w = words got in
  let rec upto key acc = function
    | [] -> (List.rev acc, [])
    | x :: t when x = key -> (List.rev acc, t)
    | x :: t -> upto key (x :: acc) t in
  match w with
  | "X" :: t -> let (x, r) = upto "H" [] t in
    (match r with h :: "P" :: p -> (x, h, p) | [h] -> (x, h, []) | _ -> failwith "got")
  | _ -> failwith "got"

let build_model sp xs =
  let c = { toks = xs } in
  let cell = if nint c = 1 then Some (times 6 (fun () -> s2l (nstr c))) else None in
  let nsym = nint c in let nprim = nint c in let lat = nint c in let ccp4 = nint c in
  let hm = nstr c in let pg = nstr c in
  let nsymm = nint c in
  let symm = times nsymm (fun () -> s2l (nstr c)) in
  let r0 = nstr c in let r1 = nstr c in
  let valm = (match next c with "-" -> None | h -> Some (s2l (hex_decode h))) in
  let cols = List.map (fun (l, ty, ds, src) ->
    let mn = nstr c in let mx = nstr c in
    { c_label = s2l l; c_type = zi ty; c_min = s2l mn; c_max = s2l mx; c_ds = zi ds; c_src = s2l src }) sp.sp_cols in
  let dss = List.map (fun (id, p, cr, nm) ->
    let cl = times 6 (fun () -> s2l (nstr c)) in
    let w = nstr c in
    { d_id = zi id; d_proj = s2l p; d_crys = s2l cr; d_name = s2l nm; d_cell = cl; d_wave = s2l w }) sp.sp_dss in
  let ax l i = if i < List.length l then s2l (List.nth l i) else [] in
  let batches = List.map (fun (num, t, axs) ->
    { b_num = zi num; b_title = s2l t; b_nint = zi 29; b_nflt = zi 156;
      b_ax0 = ax axs 0; b_ax1 = ax axs 1; b_ax2 = ax axs 2 }) sp.sp_batches in
  { m_title = s2l sp.sp_title; m_nrefl = zi sp.sp_nrefl; m_cell = cell; m_sort = List.map zi sp.sp_sort;
    m_nsym = zi nsym; m_nprim = zi nprim; m_lat = zi lat; m_ccp4 = zi ccp4; m_hm = s2l hm; m_pg = s2l pg;
    m_symm = symm; m_reso0 = s2l r0; m_reso1 = s2l r1; m_valm = valm;
    m_cols = cols; m_dss = dss; m_batches = batches; m_hist = List.map s2l sp.sp_hist }

exception Rd_fail
(* the reader on the model's records: main headers (Coq parse_main), then history and batch headers
   (the loop of read_history_and_batch_headers with Coq's per-record parsers) *)
let model_read recs =
  let (st, rest) = parse_main p0 recs in
  if st.p_fail then raise Rd_fail;
  let cols = List.rev st.p_cols and dss = List.rev st.p_dss in
  if iz st.p_ncol <> List.length cols then raise Rd_fail;
  let nb = iz st.p_nbatch in
  if st.p_has_batch <> (nb > 0) then raise Rd_fail;
  let hist = ref [] and bats = ref [] in
  let k s = List.map zi (List.map Char.code (List.init (String.length s) (String.get s))) in
  let rec loop nh = function
    | [] -> ()
    | r :: t ->
      if key4 r = k "MTZE" then ()
      else if nh <> 0 then (hist := parse_history_line r :: !hist; loop (nh - 1) t)
      else if key4 r = k "MTZH" then begin
        let n = iz (parse_mtzhist r) in
        if n < 0 || n > 30 then () else loop n t
      end else if key4 r = k "MTZB" then begin
        let rec bl i l = if i = 0 then l else
          match l with
          | bh :: ti :: ch :: t2 ->
            if key3 bh <> List.map zi [66; 72; 0] then raise Rd_fail;
            let (((num, tot), ni), nf) = parse_bh bh in
            if iz tot <> iz ni + iz nf || iz tot > 1000 then raise Rd_fail;
            bats := (num, parse_btitle ti) :: !bats;
            if key4 ch <> k "BHCH" then raise Rd_fail;
            bl (i - 1) t2
          | _ -> raise Rd_fail in
        loop 0 (bl nb t)
      end else loop 0 t in
  loop 0 rest;
  (st, cols, dss, List.rev !hist, List.rev !bats)

let parsed_tokens (st, cols, dss, hist, bats) =
  let b = Buffer.create 256 in
  let add s = Buffer.add_char b ' '; Buffer.add_string b s in
  let addl l = add (hexl l) and addz z = add (string_of_int (iz z)) in
  addl st.p_title;
  add (string_of_int (List.length cols)); addz st.p_nrefl; addz st.p_nbatch;
  List.iter addz st.p_sort;
  addz st.p_nsymop; addz st.p_sgnum; addl st.p_sgname; addz st.p_nsymm;
  add (if st.p_valm_nan then "1" else "0");
  List.iter (fun c -> addl c.pc_label; addz c.pc_type; addz c.pc_ds; addl c.pc_src) cols;
  add (string_of_int (List.length dss));
  List.iter (fun d -> addz d.pd_id; addl d.pd_proj; addl d.pd_crys; addl d.pd_name) dss;
  add (string_of_int (List.length hist));
  List.iter addl hist;
  List.iter (fun (n, t) -> addz n; addl t) bats;
  Buffer.contents b

let hdr args got =
  let sp = parse_spec args in
  if List.length sp.sp_cols < 3 then Some "EXC"
  else if got = "EXC" then Some "a header (no exception)"
  else begin
    let (xs, _, _) = split_got got in
    let m = build_model sp xs in
    match emit_headers m with
    | None -> Some "MODEL: write outside buf[81]"
    | Some recs ->
      let h = hex_encode (String.concat "" (List.map l2s recs)) in
      let p = (try parsed_tokens (model_read recs) with Rd_fail -> " EXC") in
      Some ("X " ^ String.concat " " xs ^ " H " ^ h ^ " P" ^ p)
  end

let bytes_of_hex h = s2l (hex_decode h)
let rec i64_of_pos = function
  | XH -> 1L | XO p -> Int64.mul 2L (i64_of_pos p) | XI p -> Int64.add (Int64.mul 2L (i64_of_pos p)) 1L
let string_of_z64 = function
  | Z0 -> "0" | Zpos p -> Int64.to_string (i64_of_pos p) | Zneg p -> Int64.to_string (Int64.neg (i64_of_pos p))
(*CONV*)
(* rows: X ntags nrefl {N<minwidth> | T<hex text>}* H <hex loop body> *)
let conv_handle cmd args got : string option =
  match cmd with
  | "rows" ->
    (match words got with
     | "X" :: nt :: nr :: rest ->
       let nt = int_of_string nt and nr = int_of_string nr in
       let rec take_items n acc l = if n = 0 then (List.rev acc, l) else
         match l with
         | x :: t ->
           let it = if x.[0] = 'N' then INan (nat_of_int (int_of_string (String.sub x 1 (String.length x - 1))))
                    else INum (s2l (hex_decode (String.sub x 1 (String.length x - 1)))) in
           take_items (n - 1) (it :: acc) t
         | [] -> failwith "items" in
       let (items, tl) = take_items (nt * nr) [] rest in
       let rec rows_of l = if l = [] then [] else
         let rec sp n acc l = if n = 0 then (List.rev acc, l) else
           (match l with x :: t -> sp (n - 1) (x :: acc) t | [] -> failwith "row") in
         let (r, t) = sp nt [] l in r :: rows_of t in
       let rows = rows_of items in
       let xs = String.concat " " (List.filteri (fun i _ -> i < 3 + nt * nr) (words got)) in
       (match loop_body put_item rows with
        | None -> Some "MODEL: store outside buf[256]"
        | Some out -> Some (xs ^ " H " ^ hexl out))
     | _ -> if got = "EXC" then None else Some "X ...")
  | "recipe" ->
    (* conv-spec: skip_empty trim less_anom free nrefl seed mode ncols {hexlabel type}* nspec {hexline}* [sgrow] *)
    let c = { toks = words args } in
    let _ = nint c in let _ = nint c in let less = nint c in let _ = nint c in
    let _ = nint c in let _ = next c in let _ = nint c in
    let ncols = nint c in
    let cols = times ncols (fun () -> let l = nstr c in let t = nint c in { cl_label = s2l l; cl_type = zi t }) in
    let hkl = List.map (fun ch -> { cl_label = [zi (Char.code ch)]; cl_type = zi 72 }) ['H'; 'K'; 'L'] in
    let nspec = nint c in
    let spec = times nspec (fun () -> s2l (nstr c)) in
    let lines = if nspec = 0 then m2c_merged_raw else spec in
    let o = { o_less = zi less; o_merged = true; o_star_empty = true } in
    let all = hkl @ cols in
    (match prepare_recipe o all lines with
     | None -> Some "FAIL"
     | Some r ->
       let sh = shown all r in
       let tags = String.concat "," (List.map (fun (t, _) -> hexl t) sh) in
       let ann = List.filter_map (fun (t, l) -> match l with Some l -> Some (hexl l ^ ":" ^ hexl t) | None -> None) sh in
       Some ("R " ^ tags ^ " A " ^ (if ann = [] then "none" else String.concat "," ann)))
  | _ -> None
(*/CONV*)
let handle cmd args got : string option =
  match cmd with
  | "hdr" -> hdr args got
  | "rd1" ->
    (match read_first (bytes_of_hex args) with
     | Some (same, off) -> Some (Printf.sprintf "%d %s" (if same then 1 else 0) (string_of_z64 off))
     | None -> Some "EXC")
  | "wr1" -> (match words args with
     | [a; b] -> Some (hexl (first20 (zi (int_of_string a)) (zi (int_of_string b))))
     | _ -> None)
  | "rdd" ->
    let b = bytes_of_hex args in
    (match read_prefix b with
     | Some ((off, d), _) ->
       let ds = String.concat "" (List.map (fun (((a, b), c), d) -> l2s [a; b; c; d]) d) in
       Some (Printf.sprintf "%s %d %s" (string_of_z64 off) (80 + 4 * List.length d) (hex_encode ds))
     | None -> if got = "EXC" || got = "short" then Some got else Some "EXC|short")
  | _ -> conv_handle cmd args got

let () = serve3 handle
