(* Extraction of the CIF-family model. ExtrOcamlBasic only: Z/positive/N stay Coq datatypes. *)
From Coq Require Extraction ExtrOcamlBasic.
From GV Require Import Cif.Quote Cif.Write Cif.Buf Cif.Lex Cif.JsonNum.
Extraction Blacklist String List Nat.
Extraction "cif.ml"
  char_table is_null as_string is_text_field quote
  write_cif block_ops ops_bytes step positions in_bounds buffered_output
  lex_value wf_class start_ok write_as_number json_number.
