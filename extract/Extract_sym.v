(* Extraction of the symmetry-family model. ExtrOcamlBasic only: Z/positive/N stay Coq datatypes. *)
From Coq Require Extraction ExtrOcamlBasic.
From GV Require Import Sym.Op Sym.Triplet Sym.Group Sym.SgLookup Sym.Asu Sym.SgTable_gen Sym.SgCheck.
Extraction Blacklist String List Nat.
Extraction "sym.ml"
  op_mul op_mul_checked combine inverse rot_type triplet parse_triplet apply_to_hkl apply_to_hkl_nodiv phase_shift_num
  mat_vec_raw symops_from_hall generators_from_hall all_ops_sorted find_centering order
  sg_table alt_table basisops ccp4_hkl_asu pg_index_and_category inversion_centers
  find_spacegroup_by_name find_spacegroup_by_number find_spacegroup_by_ops operations xhm
  make_asu asu_is_in to_asu to_asu_sign is_reflection_centric epsilon_factor
  epsilon_factor_without_centering is_systematically_absent
  row_info row_group_ok_b.
