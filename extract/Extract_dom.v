(* Extraction of the DOM-editing model (C19). ExtrOcamlBasic only: Z/positive/nat stay Coq datatypes. *)
From Coq Require Extraction ExtrOcamlBasic.
From GV Require Import Base.Str Dom.Dom.
Extraction Blacklist String List Nat.
Extraction "dom.ml" step run blk_apply.
