(* Driver for the map family: recomputes each harness line with the extracted Coq model. *)
let zi = z_of_int and iz = int_of_z
let ints ws = List.map int_of_string ws
let hmod = 1000000007
let hash_list (l : int list) (dflt : int) =
  let h = ref 0 and nd = ref 0 in
  List.iter (fun v -> if v = dflt then incr nd; h := (!h * 31 + (v + 1000003)) mod hmod) l;
  Printf.sprintf "%d %d" !h !nd
let valfn seed k = (k * k + 3 * k + seed) mod 7
let valfn2 seed k = ((k * k * 5 + 11 * k + seed) mod 13) - 6
let v3 a b c = ((zi a, zi b), zi c)
let v3s ((a, b), c) = Printf.sprintf "%d %d %d" (iz a) (iz b) (iz c)
let res_s f = function Ok a -> f a | Exc -> "EXC" | Oob -> "OOB" | Trap -> "TRAP"
let b01 b = if b then "1" else "0"
(* more than 40 bits *)
let zbig z = let rec len = function XH -> 1 | XO p | XI p -> 1 + len p in match z with Zpos p -> len p > 40 | _ -> false

let handle cmd args : string option =
  let w = words args in
  match cmd with
  | "modulo" -> (match ints w with
      | [a; n] -> if modulo_traps (zi a) (zi n) then Some "TRAP" else Some (string_of_int (iz (grid_modulo (zi a) (zi n))))
      | _ -> None)
  | "idx" -> (match ints w with
      | [nu; nv; nw; u; v; x] ->
        Some (Printf.sprintf "%d %d" (iz (index_n64 (zi nu) (zi nv) (zi nw) (zi u) (zi v) (zi x)))
                (iz (index_s64 (zi nu) (zi nv) (zi nw) (zi u) (zi v) (zi x))))
      | _ -> None)
  | "gridfac" -> let g = row_gops (row_at (zi (int_of_string (List.hd w)))) in
    Some (Printf.sprintf "%s %s %s %s" (v3s (find_grid_factors g))
            (b01 (are_directions_symmetry_related g (zi 1) (zi 0)))
            (b01 (are_directions_symmetry_related g (zi 2) (zi 0)))
            (b01 (are_directions_symmetry_related g (zi 2) (zi 1))))
  | "chkfac" -> (match ints w with
      | [r; a; b; c] -> Some (b01 (row_check_grid_factors (zi r) (v3 a b c)))
      | _ -> None)
  | "sops" -> (match ints w with
      | [r; a; b; c] ->
        let ops = row_scaled_ops (zi r) (v3 a b c) in
        Some (string_of_int (List.length ops) ^ String.concat "" (List.map (fun o ->
          let ((r0, r1), r2) = o.g_rot in " " ^ v3s r0 ^ " " ^ v3s r1 ^ " " ^ v3s r2 ^ " " ^ v3s o.g_tran) ops))
      | _ -> None)
  | "brick" -> None
  | "bend" -> (match ints w with
      (* AsuBrick(a, b, c).uvw_end for a grid nu x nv x nw *)
      | [a; b; c; nu; nv; nw] ->
        Some (Printf.sprintf "%d %d %d" (iz (uvw_end1 (zi a) (zi nu))) (iz (uvw_end1 (zi b) (zi nv))) (iz (uvw_end1 (zi c) (zi nw))))
      | _ -> None)
  | "asumask" -> (match ints w with
      | [r; a; b; c; eu; ev; ew] ->
        Some (res_s (fun l -> hash_list (List.map iz l) 0)
                (get_asu_mask (zi a) (zi b) (zi c) (row_scaled_ops (zi r) (v3 a b c)) (zi eu) (zi ev) (zi ew)))
      | _ -> None)
  | "symm" -> (match ints w with
      | [which; r; a; b; c; seed; dflt] ->
        let data = List.init (a * b * c) (fun k -> zi (valfn2 seed k)) in
        Some (res_s (fun l -> hash_list (List.map iz l) dflt)
                (symmetrize_using_ops (reducer (zi which) (zi dflt)) (zi a) (zi b) (zi c)
                   (row_scaled_ops (zi r) (v3 a b c)) data))
      | _ -> None)
  | "hdrw" -> (match ints w with
      | [r; a; b; c; mode] ->
        let row = row_at (zi r) in
        let ord = order (row_gops row) in
        let h = prepared_header (v3 a b c) row.sg_ccp4 ord (zi mode) in
        Some (Printf.sprintf "%d %s %d %s %s %s %d %d" (iz (prepared_header_words ord)) (v3s h.h_n) (iz h.h_mode)
                (v3s h.h_start) (v3s h.h_samp) (v3s h.h_axes) (iz h.h_ispg) (iz h.h_nsymbt))
      | _ -> None)
  | "setup" -> (match w with
      | t :: rest -> (match ints rest with
        | [nx; ny; nz; mode; sx; sy; sz; mx; my; mz; mc; mr; ms; ispg; _swap; smode; dflt; seed] ->
          if not (List.mem mode [0; 1; 2; 6]) then Some "EXC" else
          (* the harness supplies at most 2^22 voxels: beyond that the reader runs out of data (or of memory) *)
          (* read_ccp4_stream: grid.data.resize(point_count()); the harness supplies at most 2^22 voxels, beyond that
             the reader runs out of data or of memory *)
          let pc = point_count (v3 nx ny nz) in
          if (match pc with Zpos p -> (try int_of_z pc > 4194304 with _ -> true) | _ -> false) || zbig pc then Some "EXC" else
          let newcount = if mx > 0 && my > 0 && mz > 0 then (if mx * my > 268435456 then max_int else mx * my * mz) else 0 in
          if smode <> 2 && newcount > 4194304 && newcount <= 268435456 then None else
          let cnt = int_of_z pc in
          let data = List.init cnt (fun k -> let v = zi (valfn seed k) in
                                     if t = "b" && mode = 2 then translate_mask v else v) in
          let h = { h_n = v3 nx ny nz; h_mode = zi mode; h_start = v3 sx sy sz; h_samp = v3 mx my mz;
                    h_axes = v3 mc mr ms; h_ispg = zi ispg; h_nsymbt = zi 0 } in
          let r = match grid_of_header h data with
            | Ok g -> setup_sg h g (zi dflt) (zi smode)
            | Exc -> Exc | Oob -> Oob | Trap -> Trap in
          Some (res_s (fun (h', g') ->
            Printf.sprintf "%s %d H %s %d %s %s %s %d %d D %d %s" (v3s g'.g_n) (iz g'.g_ao) (v3s h'.h_n) (iz h'.h_mode)
              (v3s h'.h_start) (v3s h'.h_samp) (v3s h'.h_axes) (iz h'.h_ispg) (iz h'.h_nsymbt)
              (List.length g'.g_data) (hash_list (List.map iz g'.g_data) dflt)) r)
        | _ -> None)
      | _ -> None)
  | "mstream" -> (match w with
      | sz :: ops ->
        let size = int_of_string sz in
        let cur = ref 0 and bad = ref false and out = ref [] in
        List.iter (fun o ->
          let arg = if String.length o > 1 then int_of_string (String.sub o 1 (String.length o - 1)) else 0 in
          let op = match o.[0] with
            | 'r' -> SRead (zi arg)
            | 's' -> SSkip (zi arg)
            | 'g' -> let d = 6 - (!cur mod 7) in
                     SGets (zi arg, zi (if !cur >= 0 && !cur + d < size then d else -1))
            | 'c' -> SGetc
            | _ -> SRest in
          let r = step (zi size) (zi !cur) op in
          if not (range_ok (zi size) r) then bad := true;
          cur := iz r.s_cur;
          out := Printf.sprintf "%d:%d" (iz r.s_cur) (iz r.s_ret) :: !out) ops;
        Some (if !bad then "OOB" else String.concat " " (List.rev !out))
      | _ -> None)
  | "gz" -> (match w with
      | [isize; total; gzsize; _hex] ->
        let isize = int_of_string isize and total = int_of_string total and gzsize = int_of_string gzsize in
        if isize + 100 < gzsize || isize > 100 * gzsize then Some "EXC" else
        Some (match uncompress grow (nat_of_int (total + 2)) (zi isize) (zi total) with
              | Some (Some n) -> Printf.sprintf "OK %d" (iz n)
              | Some None -> "EXC"
              | None -> "NONTERMINATION")
      | _ -> None)
  | _ -> None

let () = serve handle
