(* Driver for the reader models (C02): PIR/FASTA. *)
let handle cmd args : string option =
  match cmd, words args with
  | "pirfull", [h] ->
    Some (match read_pir_or_fasta (str_of_string (hex_decode h)) with
      | POk r -> string_of_int (List.length r) ^
                 String.concat "" (List.map (fun (hd, sq) -> " " ^ hex_encode (string_of_str hd) ^ " " ^ hex_encode (string_of_str sq)) r)
      | PFail -> "EXC" | POob -> "OOB" | PFuel -> "OUT-OF-FUEL")
  | "operexpr", ws ->
    let text = match ws with [h] when h <> "-" -> hex_decode h | _ -> "" in
    Some (match parse_operation_expr (str_of_string text) with
      | Throw -> "EXC" | OutOfFuel -> "OUT-OF-FUEL" | OutOfRange -> "EXC"
      | Done items ->
        (* the same summary as the harness: count, the first 40 names and the last two *)
        let counts = List.map (fun it -> int_of_z (count it)) items in
        let n = List.fold_left (+) 0 counts in
        let name_at k =            (* k-th name of the expansion *)
          let rec go its k = match its with
            | [] -> "?"
            | it :: rest ->
              let c = int_of_z (count it) in
              if k < c then (match it with
                  | Lit s -> string_of_str s
                  | Range (lo, _) -> string_of_str (print_int (z_of_int (int_of_z lo + k))))
              else go rest (k - c) in
          go items k in
        let idx = List.filter (fun i -> i < 40 || i + 3 > n) (List.init (min n 40) (fun i -> i) @
                    (if n > 40 then List.filter (fun i -> i >= 40) [n - 2; n - 1] else [])) in
        string_of_int n ^ String.concat "" (List.map (fun i -> let s = name_at i in " " ^ (if s = "" then "-" else hex_encode s)) idx))
  | _ -> None
let () = serve handle
