(* Driver for the reader models (C02): PIR/FASTA. *)
let handle cmd args : string option =
  match cmd, words args with
  | "pirfull", [h] ->
    Some (match read_pir_or_fasta (str_of_string (hex_decode h)) with
      | POk r -> string_of_int (List.length r) ^
                 String.concat "" (List.map (fun (hd, sq) -> " " ^ hex_encode (string_of_str hd) ^ " " ^ hex_encode (string_of_str sq)) r)
      | PFail -> "EXC" | POob -> "OOB" | PFuel -> "OUT-OF-FUEL")
  | _ -> None
let () = serve handle
