(* Driver for the symmetry family: recomputes each harness line with the extracted Coq model. *)
let zi = z_of_int and iz = int_of_z
let ints ws = List.map int_of_string ws
let rec take n l = if n = 0 then [] else match l with [] -> [] | x :: t -> x :: take (n - 1) t
let rec drop n l = if n = 0 then l else match l with [] -> [] | _ :: t -> drop (n - 1) t
let op_of = function
  | [a;b;c;d;e;f;g;h;i;t0;t1;t2;nt] ->
    { rot = (((zi a, zi b), zi c), ((zi d, zi e), zi f)), ((zi g, zi h), zi i);
      tran = ((zi t0, zi t1), zi t2); nota = zi nt }
  | _ -> failwith "op_of"
let v3s ((a, b), c) = Printf.sprintf "%d %d %d" (iz a) (iz b) (iz c)
let op_s o = let ((r0, r1), r2) = o.rot in
  Printf.sprintf "%s %s %s %s %d" (v3s r0) (v3s r1) (v3s r2) (v3s o.tran) (iz o.nota)
let gops_s g =
  "S " ^ string_of_int (List.length g.sym_ops) ^
  String.concat "" (List.map (fun o -> " " ^ op_s o) g.sym_ops) ^
  " C " ^ string_of_int (List.length g.cen_ops) ^
  String.concat "" (List.map (fun c -> " " ^ v3s c) g.cen_ops)
let hres_s f = function HOk g -> f g | HFail -> "EXC" | HOob -> "OOB"
let table = Array.of_list sg_table
let ops_cache = Hashtbl.create 600
let row_ops i = match Hashtbl.find_opt ops_cache i with
  | Some g -> g
  | None -> let g = operations table.(i) in Hashtbl.add ops_cache i g; g
let idx_s = function Some z -> string_of_int (iz z) | None -> "-1"
let b01 b = if b then "1" else "0"
let nth_z l i = List.nth l i

let asu_of row tnt =
  let r = table.(row) in
  let idx = nth_z ccp4_hkl_asu (iz r.sg_number - 1) in
  let brot = match row_basisop r with Ok o -> o.rot | _ -> id_rot in
  make_asu idx (row_is_ref r) brot tnt

let asu_line row tnt hkl =
  match row_ops row with
  | HOk g ->
    let a = asu_of row tnt in
    let s = b01 (asu_is_in a hkl) in
    let s = s ^ (match to_asu a hkl g with
      | Some (h, isym) -> Printf.sprintf " A %s %d" (v3s h) (iz isym) | None -> " A EXC") in
    let s = s ^ (match to_asu_sign a hkl g with
      | Some (h, sg) -> Printf.sprintf " G %s %s" (v3s h) (b01 sg) | None -> " G EXC") in
    s ^ Printf.sprintf " P %s %s %d %d" (b01 (is_systematically_absent g hkl))
          (b01 (is_reflection_centric g hkl)) (iz (epsilon_factor g hkl))
          (iz (epsilon_factor_without_centering g hkl))
  | _ -> "EXC"

let handle cmd args : string option =
  let w = words args in
  match cmd with
  | "mul" -> let l = ints w in
    Some (match op_mul_checked (op_of (take 13 l)) (op_of (drop 13 l)) with Some o -> op_s o | None -> "EXC")
  | "combine" -> let l = ints w in
    Some (match combine (op_of (take 13 l)) (op_of (drop 13 l)) with Some o -> op_s o | None -> "EXC")
  | "inverse" -> Some (match inverse (op_of (ints w)) with Some o -> op_s o | None -> "EXC")
  | "rottype" -> Some (string_of_int (iz (rot_type (op_of (ints w)).rot)))
  | "triplet" -> let l = ints w in
    Some (match triplet (op_of (take 13 l)) (zi (List.nth l 13)) with
          | Some s -> hex_encode (string_of_str s) | None -> "EXC")
  | "parse" -> (match w with
    | [h; nt] -> Some (match parse_triplet (str_of_string (hex_decode h)) (zi (int_of_string nt)) with
                       | Ok o -> op_s o | Fail -> "EXC" | OutOfFuel -> "OUT-OF-FUEL")
    | _ -> None)
  | "hklops" -> let l = ints w in
    let o = op_of (take 13 l) in
    (match drop 13 l with
     | [h; k; l'] -> let hkl = ((zi h, zi k), zi l') in
       Some (Printf.sprintf "%s %s %d ok" (v3s (apply_to_hkl o hkl)) (v3s (apply_to_hkl_nodiv o hkl))
               (iz (phase_shift_num o hkl)))
     | _ -> None)
  | "xyz" -> let l = ints w in
    let o = op_of (take 13 l) in
    (match drop 13 l with
     | [x; y; z; d] ->
       if o.nota = zi 104 then Some "EXC" else
       let ((a, b), c) = mat_vec_raw o.rot ((zi x, zi y), zi z) in
       let ((t0, t1), t2) = o.tran in
       Some (Printf.sprintf "%d %d %d ok" (iz a + iz t0 * d) (iz b + iz t1 * d) (iz c + iz t2 * d))
     | _ -> None)
  | "seitz" -> let o = op_of (ints w) in Some (op_s { o with nota = zi 120 })
  | "hall" -> Some (hres_s gops_s (symops_from_hall (str_of_string (hex_decode (List.hd w)))))
  | "gens" -> Some (hres_s gops_s (generators_from_hall (str_of_string (hex_decode (List.hd w)))))
  | "row" -> Some (hres_s gops_s (row_ops (int_of_string (List.hd w))))
  | "sorted" -> Some (hres_s (fun g -> let l = all_ops_sorted g in
      string_of_int (List.length l) ^ String.concat "" (List.map (fun o -> " " ^ op_s o) l))
      (row_ops (int_of_string (List.hd w))))
  | "rowinfo" ->
    (match row_info table.(int_of_string (List.hd w)) with
     | None -> Some "EXC"
     | Some i ->
       Some (Printf.sprintf "%d %d %d %s %s %s %s %d %d %d %s %s B %s H %s X %s N %s"
         (iz i.ri_pg) (iz i.ri_laue) (iz i.ri_system) (b01 i.ri_sohncke) (b01 i.ri_enant) (b01 i.ri_symm)
         (b01 i.ri_centro) (iz i.ri_ctype) (iz i.ri_found_centering) (iz i.ri_order) (b01 i.ri_is_ref)
         (b01 i.ri_gcentro)
         (match i.ri_basisop with Ok o -> op_s o | _ -> "EXC")
         (match i.ri_coh with Some o -> op_s o | None -> "EXC")
         (hex_encode (string_of_str i.ri_xhm)) (hex_encode (string_of_str i.ri_short))))
  | "byname" -> (match w with
    | [h; hint; prefer] ->
      let hint = (match hint with "0" -> None | "1" -> Some true | _ -> Some false) in
      let prefer = if prefer = "null" then None else Some (str_of_string (hex_decode prefer)) in
      Some (match find_spacegroup_by_name sg_table alt_table (str_of_string (hex_decode h)) hint prefer with
            | None -> "EXC" | Some r -> idx_s r)
    | _ -> None)
  | "bynum" -> Some (idx_s (find_spacegroup_by_number sg_table (zi (int_of_string (List.hd w)))))
  | "byops" -> Some (match row_ops (int_of_string (List.hd w)) with
      | HOk g -> idx_s (find_spacegroup_by_ops sg_table g) | _ -> "EXC")
  | "byhall" -> Some (match symops_from_hall (str_of_string (hex_decode (List.hd w))) with
      | HOk g -> idx_s (find_spacegroup_by_ops sg_table g) | HFail -> "EXC" | HOob -> "OOB")
  | "asu" -> (match ints w with
    | [row; tnt; h; k; l] -> Some (asu_line row (tnt <> 0) ((zi h, zi k), zi l))
    | _ -> None)
  | "rowcheck" -> Some (b01 (row_group_ok_b table.(int_of_string (List.hd w))))
  | _ -> None

let () = serve handle
