(* Driver for the Move model (C13): recomputes `move` lines. *)
let zi = z_of_int and iz = int_of_z
let table = Array.of_list sg_table
let cache = Hashtbl.create 600
let row_ops i = match Hashtbl.find_opt cache i with
  | Some g -> g | None -> let g = operations table.(i) in Hashtbl.add cache i g; g
let v3s ((a, b), c) = Printf.sprintf "%d %d %d" (iz a) (iz b) (iz c)
let modp a n = ((a mod n) + n) mod n
let handle cmd args : string option =
  match cmd, List.map int_of_string (words args) with
  | "move", [row; tnt; h; k; l] ->
    (match row_ops row with
     | HOk g ->
       let hkl = ((zi h, zi k), zi l) in
       let a = row_asu table.(row) (tnt <> 0) in
       (match move_entry a g hkl with
        | None -> Some "EXC"
        | Some m ->
          let s = if m.mv_negate then -1 else 1 in
          let kk = modp (iz m.mv_shift) 24 in
          let sw = if swaps_anomalous g hkl m then "1" else "0" in
          let one = Printf.sprintf "%s %d %d" (v3s m.mv_hkl) s kk in
          Some (Printf.sprintf "%s %s %s D %s" one sw sw one))
     | _ -> Some "EXC")
  | "expand", [row; h; k; l] ->
    (match row_ops row with
     | HOk g ->
       let cs = expand_entry g ((zi h, zi k), zi l) in
       Some (String.concat " " (string_of_int (List.length cs) ::
               List.map (fun c -> Printf.sprintf "%s %d" (v3s c.cp_hkl) (modp (iz c.cp_shift) 24)) cs))
     | _ -> Some "EXC")
  | _ -> None
let () = serve handle
