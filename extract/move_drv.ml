(* Driver for the Move model (C13): recomputes `move` lines. *)
let zi = z_of_int and iz = int_of_z
let table = Array.of_list sg_table
let cache = Hashtbl.create 600
let row_ops i = match Hashtbl.find_opt cache i with
  | Some g -> g | None -> let g = operations table.(i) in Hashtbl.add cache i g; g
let v3s ((a, b), c) = Printf.sprintf "%d %d %d" (iz a) (iz b) (iz c)
let modp a n = ((a mod n) + n) mod n
(* pm: columns as label_hex:type:dataset ... -> the pairs; then, after "|", the row values -> the swapped row *)
let unhex s = List.init (String.length s / 2) (fun i -> zi (int_of_string ("0x" ^ String.sub s (2 * i) 2)))
let pm_handle args =
  let ws = words args in
  let rec split acc = function "|" :: rest -> (List.rev acc, rest) | x :: rest -> split (x :: acc) rest | [] -> (List.rev acc, []) in
  let (cs, row) = split [] ws in
  let cols = List.map (fun w -> match String.split_on_char ':' w with
      | [l; t; d] -> { c_label = unhex l; c_type = zi (int_of_string t); c_ds = zi (int_of_string d) }
      | _ -> failwith "pm") cs in
  let pairs = pm_pairs cols in
  let ps = String.concat " " (List.map (fun (i, j) -> Printf.sprintf "%d-%d" (int_of_nat i) (int_of_nat j)) pairs) in
  let out = apply_swaps pairs (List.map (fun w -> zi (int_of_string w)) row) in
  ps ^ " | " ^ String.concat " " (List.map (fun z -> string_of_int (iz z)) out)
let handle cmd args : string option =
  if cmd = "rx" then
    (* rx r00..r22 | h k l ...: the rows Mtz::reindex keeps, with their new indices (model Move/ReindexRows.v) *)
    (match List.map int_of_string (List.filter (fun w -> w <> "|") (words args)) with
     | a :: b :: c :: d :: e :: f :: g :: h :: i :: rest ->
       let z = zi in
       let x = { rot = ((((z a, z b), z c), ((z d, z e), z f)), ((z g, z h), z i)) ; tran = ((z 0, z 0), z 0); nota = z 120 } in
       let rec triples = function p :: q :: r :: t -> ((z p, z q), z r) :: triples t | _ -> [] in
       let kept = reindex_rows x (triples rest) in
       Some (String.concat " " (string_of_int (List.length kept) :: List.map v3s kept))
     | _ -> None) else
  if cmd = "pm" then Some (pm_handle args) else
  match cmd, List.map int_of_string (words args) with
  | "move", [row; tnt; h; k; l] ->
    (match row_ops row with
     | HOk g ->
       let hkl = ((zi h, zi k), zi l) in
       let a = row_asu table.(row) (tnt <> 0) in
       (match move_entry a g hkl with
        | None -> Some "EXC"
        | Some m ->
          let s = if m.mv_negate then -1 else 1 in
          let kk = modp (iz m.mv_shift) 24 in
          let sw = if swaps_anomalous g hkl m then "1" else "0" in
          let one = Printf.sprintf "%s %d %d" (v3s m.mv_hkl) s kk in
          Some (Printf.sprintf "%s %s %s D %s" one sw sw one))
     | _ -> Some "EXC")
  | "expand", [row; h; k; l] ->
    (match row_ops row with
     | HOk g ->
       let cs = expand_entry g ((zi h, zi k), zi l) in
       Some (String.concat " " (string_of_int (List.length cs) ::
               List.map (fun c -> Printf.sprintf "%s %d" (v3s c.cp_hkl) (modp (iz c.cp_shift) 24)) cs))
     | _ -> Some "EXC")
  | _ -> None
let () = serve handle
