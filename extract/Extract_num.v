(* Extraction of the number-family model (C12). ExtrOcamlBasic only: Z/positive stay Coq datatypes. *)
From Coq Require Extraction ExtrOcamlBasic.
From GV Require Import Base.Str Num.IntParse Num.DecParse Num.Nearest Num.Printf.
Extraction Blacklist String List Nat.
Extraction "num.ml"
  g_is_space g_is_digit g_is_blank string_to_int simple_atoi no_sign_atoi strtol10
  string_to_int_u simple_atoi_u no_sign_atoi_u
  is_cif_numb cif_value cif_number as_number_bits as_number_v0_bits nearest_full nearest_double
  fast_atof read_double ff_scan decode_bits print_fixed printed_ok
  Z.add Z.mul Z.pow Z.div Z.modulo Z.sub Z.opp Z.ltb Z.eqb.
