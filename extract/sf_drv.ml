(* Driver for the structure-factor family: recomputes each harness line with the extracted Coq model.
   The model's numeric functions are generic; here they are instantiated with IEEE doubles and libm, and the
   comparison is  |impl - model| <= tol * S  where S is the model value with |a_i|, |c| (sum of |terms|). *)
let zi = z_of_int and iz = int_of_z
let rec int_of_positive = int_of_pos

(* q = n / 10^k  ->  nearest double of that decimal (what the C++ compiler does with the literal) *)
let float_of_q (x : q) : float =
  let n = iz x.qnum and d = int_of_positive x.qden in
  let rec k10 d acc = if d = 1 then acc else if d mod 10 = 0 then k10 (d / 10) (acc + 1) else -1 in
  let k = k10 d 0 in
  if k < 0 then float_of_int n /. float_of_int d
  else float_of_string (Printf.sprintf "%de-%d" n k)

let pi = 3.14159265358979323846
let add = ( +. ) and mul = ( *. ) and div = ( /. ) and neg x = -. x
let q_abs (x : q) : q = { x with qnum = zi (abs (iz x.qnum)) }

let m_sf ab c x = calculate_sf add mul neg exp float_of_q ab c x
let m_diso ab c r2 b = density_iso add mul div neg exp sqrt float_of_q pi ab c r2 b
let m_prec ab c withc b ad = precalc_iso add mul div neg sqrt float_of_q pi ab c withc b ad
let m_expsum l r2 = expsum_calc add mul exp float_of_q l r2
let m_expsum_d l r = expsum_deriv add mul exp float_of_q l r
let m_daniso ab c u x y z = density_aniso add mul div neg exp sqrt float_of_q pi ab c u x y z
let m_precb ab c withc b ad = precalc_aniso_b add mul div neg sqrt float_of_q pi ab c withc b ad
let m_anisosum l x y z = expanisosum_calc add mul exp float_of_q l x y z
let u2b = 8. *. (pi *. pi)
let scaled u s = s_scaled mul u s

let xrows = Array.of_list it92_rows
let erows = Array.of_list c4322_rows
let nrows = Array.of_list neutron_rows
let q0 : q = { qnum = zi 0; qden = XH }

(* (ab, c, withc, raw coefficient list) *)
let coef t i =
  match t with
  | "X" -> let r = xrows.(i) in (xray_ab r, xray_c r, true, r)
  | "E" -> let r = erows.(i) in (elec_ab r, q0, false, r)
  | "N" -> let r = nrows.(i) in ([], r, true, [r])
  | _ -> failwith "table"
let abs_coef (ab, c, w, r) = (abs_ab ab, q_abs c, w, r)

let bits64 x = Printf.sprintf "%016Lx" (Int64.bits_of_float x)
let bits32 x = Printf.sprintf "%08lx" (Int32.bits_of_float x)
let g17 x = Printf.sprintf "%.17g" x

let fl = float_of_string
type verdict = Exact of string | Near of float list * float list * float | Skip
(* Near (expected, scale, tol): |got_k - expected_k| <= tol * scale_k + 1e-25 *)

let smat_of l = match l with
  | [a; b; c; d; e; f] -> { u11 = a; u22 = b; u33 = c; u12 = d; u13 = e; u23 = f }
  | _ -> failwith "smat"
let rec take n l = if n = 0 then [] else match l with [] -> [] | x :: t -> x :: take (n - 1) t
let rec drop n l = if n = 0 then l else match l with [] -> [] | _ :: t -> drop (n - 1) t
(* the C++ float path rounds its inputs to float; the generators only emit values exact in float *)
let tol_double = 1e-9 and tol_float = 6e-5

(* ---- C17: f'' of the Cromer-Liberman model with IEEE doubles; table entries are floats in the library *)
let to_float32 x = Int32.float_of_bits (Int32.bits_of_float x)
let of_t (x : q) = to_float32 (float_of_q x)
let m_f2 orbs e = cromer_f2 add mul div (fun a b -> a -. b) exp log abs_float float_of_q of_t (fun a b -> a < b)
    (fun x -> to_float32 (log x)) orbs e
let orb_cache = Hashtbl.create 100
let orbs_of z = match Hashtbl.find_opt orb_cache z with
  | Some o -> o
  | None -> let o = orbitals_of fp_index fp_rows (zi z) in Hashtbl.add orb_cache z o; o
let fprime_handle : (string -> string list -> verdict option) ref = ref (fun cmd w ->
  match cmd, w with
  | "fpp", [z; e] ->
    (match orbs_of (int_of_string z) with
     | Some orbs -> let v = m_f2 orbs (fl e) in Some (Near ([v], [abs_float v], 5e-6))   (* logf of the library is within 1 ulp(float) of the rounded log *)
     | None -> Some (Exact "EXC"))
  | "wfrow", [k] ->
    let e = List.nth fp_index (int_of_string k) in
    Some (Exact (if element_ok_b fp_rows e then "1" else "0"))
  | _ -> None)

let handle cmd args : verdict =
  let w = words args in
  match !fprime_handle cmd w with Some v -> v | None ->
  match cmd, w with
  | "row", [t; i] -> let (_, _, _, r) = coef t (int_of_string i) in
    Exact (String.concat " " (List.map (fun x -> bits64 (float_of_q x)) r))
  | "rowf", [t; i] -> let (_, _, _, r) = coef t (int_of_string i) in
    Exact (String.concat " " (List.map (fun x -> bits32 (float_of_q x)) r))
  | "get", [el; q; ic] ->
    Exact (string_of_int (iz (it92_get it92_ions el_Cf el_D (ic <> "0") (zi (int_of_string el)) (zi (int_of_string q)))))
  | "getx", [el; q; ic] ->
    Exact (match it92_get_exact it92_ions el_Cf el_D (ic <> "0") (zi (int_of_string el)) (zi (int_of_string q)) with
           | Some p -> string_of_int (iz p) | None -> "-1")
  | ("sf" | "sff"), [t; i; x] ->
    let (ab, c, _, _) as co = coef t (int_of_string i) in
    let (ab', c', _, _) = abs_coef co in
    Near ([m_sf ab c (fl x)], [m_sf ab' c' (fl x)], if cmd = "sf" then tol_double else 2e-6)
  | ("diso" | "disof"), [t; i; r2; b] ->
    let (ab, c, _, _) as co = coef t (int_of_string i) in
    let (ab', c', _, _) = abs_coef co in
    Near ([m_diso ab c (fl r2) (fl b)], [m_diso ab' c' (fl r2) (fl b)], if cmd = "diso" then tol_double else 5e-6)
  | ("piso" | "pisof"), [t; i; r2; b; ad] ->
    let (ab, c, wc, _) as co = coef t (int_of_string i) in
    let (ab', c', _, _) = abs_coef co in
    Near ([m_expsum (m_prec ab c wc (fl b) (fl ad)) (fl r2)],
          [m_expsum (m_prec ab' c' wc (fl b) (abs_float (fl ad))) (fl r2)], if cmd = "piso" then tol_double else tol_float)
  | ("pisod" | "pisodf"), [t; i; r; b; ad] ->
    let (ab, c, wc, _) as co = coef t (int_of_string i) in
    let (ab', c', _, _) = abs_coef co in
    let p = m_prec ab c wc (fl b) (fl ad) and p' = m_prec ab' c' wc (fl b) (abs_float (fl ad)) in
    let r = fl r in
    Near ([m_expsum p (r *. r); m_expsum_d p r], [m_expsum p' (r *. r); abs_float (m_expsum_d p' r)],
          if cmd = "pisod" then tol_double else tol_float)
  | "daniso", t :: i :: x :: y :: z :: u ->
    let (ab, c, _, _) as co = coef t (int_of_string i) in
    let (ab', c', _, _) = abs_coef co in
    let u = smat_of (List.map fl (take 6 u)) in
    Near ([m_daniso ab c u (fl x) (fl y) (fl z)], [m_daniso ab' c' u (fl x) (fl y) (fl z)], tol_double)
  | ("paniso" | "panisof" | "panisob"), t :: i :: x :: y :: z :: rest ->
    let (ab, c, wc, _) as co = coef t (int_of_string i) in
    let (ab', c', _, _) = abs_coef co in
    let m = smat_of (List.map fl (take 6 rest)) in
    let ad = fl (List.nth rest 6) in
    let b = if cmd = "panisob" then m else scaled m u2b in
    Near ([m_anisosum (m_precb ab c wc b ad) (fl x) (fl y) (fl z)],
          [m_anisosum (m_precb ab' c' wc b (abs_float ad)) (fl x) (fl y) (fl z)],
          if cmd = "panisof" then tol_float else tol_double)
  | _ -> Skip

let () =
  let n = ref 0 and bad = ref 0 and skipped = ref 0 in
  let mismatch cmd args got exp =
    incr bad;
    if !bad <= 200 then Printf.printf "MISMATCH\t%s\t%s\timpl=%s\tmodel=%s\n" cmd args got exp in
  (try
    while true do
      let line = input_line stdin in
      match split_tab line with
      | [cmd; args; got] ->
        incr n;
        (match (try handle cmd args with e -> Exact ("MODEL-ERROR " ^ Printexc.to_string e)) with
         | Skip -> incr skipped
         | Exact exp -> if exp <> got then mismatch cmd args got exp
         | Near (exp, scale, tol) ->
           let gs = try List.map float_of_string (words got) with _ -> [] in
           let ok = List.length gs = List.length exp &&
             List.for_all2 (fun (g, e) s -> Float.is_finite g && abs_float (g -. e) <= tol *. s +. 1e-25)
               (List.combine gs exp) scale in
           if not ok then mismatch cmd args got
               (String.concat " " (List.map g17 exp) ^ Printf.sprintf " (tol %g of " tol ^
                String.concat " " (List.map g17 scale) ^ ")"))
      | _ -> ()
    done
  with End_of_file -> ());
  Printf.printf "SUMMARY\t%d\t%d\t%d\n" !n !bad !skipped
