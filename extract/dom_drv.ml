(* Driver for the DOM family (C19): replays a history on the extracted Coq model and compares the
   per-step status / output / document dump (or its hash) with what the C++ harness printed. *)
let s_of (s : string) = str_of_string s
let hx (z : z list) = hex_encode (string_of_str z)

(* ---- dump of a model document, same format as harness/h_dom.cpp *)
let dump_items b items =
  List.iter (fun it -> match it with
    | Pair (t, v) -> Buffer.add_string b (" P " ^ hx t ^ " " ^ hx v)
    | Loop (tags, vals) ->
      Buffer.add_string b (Printf.sprintf " L %d %d" (List.length tags) (List.length vals));
      List.iter (fun t -> Buffer.add_char b ' '; Buffer.add_string b (hx t)) tags;
      List.iter (fun t -> Buffer.add_char b ' '; Buffer.add_string b (hx t)) vals
    | Other p -> Buffer.add_string b (" O " ^ hx p)
    | Erased -> Buffer.add_string b " E") items

let dump_doc (d : block list) =
  let b = Buffer.create 1024 in
  Buffer.add_string b (Printf.sprintf "D%d" (List.length d));
  List.iter (fun blk ->
    Buffer.add_string b (Printf.sprintf " B %s %d" (hx blk.bname) (List.length blk.bitems));
    dump_items b blk.bitems) d;
  Buffer.contents b

let hash_str s =
  let h1 = ref 2166136261 and h2 = ref 0x9747b28c in
  String.iter (fun c ->
    let c = Char.code c in
    h1 := ((!h1 lxor c) * 16777619) land 0xFFFFFFFF;
    h2 := ((!h2 lxor c) * 16777619 + 1) land 0xFFFFFFFF) s;
  Printf.sprintf "%08x%08x" !h1 !h2

(* ---- token reader *)
type toks = { w : string array; mutable i : int }
let mk s = { w = Array.of_list (words s); i = 0 }
let next t = let x = t.w.(t.i) in t.i <- t.i + 1; x
let tstr t = s_of (hex_decode (next t))
let tnum t = int_of_string (next t)
let tz t = z_of_int (tnum t)
let tnat t = nat_of_int (tnum t)
let tlist t = let n = tnum t in List.init n (fun _ -> ()) |> List.map (fun () -> tstr t)
let tlists t = let n = tnum t in List.init n (fun _ -> ()) |> List.map (fun () -> tlist t)

(* ---- parse the harness dump of the initial document *)
let parse_doc s : block list =
  let t = mk s in
  let d = next t in
  let nb = int_of_string (String.sub d 1 (String.length d - 1)) in
  List.init nb (fun _ -> ()) |> List.map (fun () ->
    let _b = next t in
    let name = tstr t in
    let ni = tnum t in
    let items = List.init ni (fun _ -> ()) |> List.map (fun () ->
      match next t with
      | "P" -> let a = tstr t in let b = tstr t in Pair (a, b)
      | "L" -> let nt = tnum t in let nv = tnum t in
        let tags = List.init nt (fun _ -> ()) |> List.map (fun () -> tstr t) in
        let vals = List.init nv (fun _ -> ()) |> List.map (fun () -> tstr t) in
        Loop (tags, vals)
      | "O" -> Other (tstr t)
      | "E" -> Erased
      | x -> failwith ("parse_doc: " ^ x)) in
    { bname = name; bitems = items })

(* ---- parse one operation *)
let parse_op s : op =
  let t = mk s in
  let cmd = next t in
  if cmd = "addblock" then (let n = tstr t in let p = tz t in OAddBlock (n, p)) else
  let b = tnat t in
  match cmd with
  | "setpair" -> let a = tstr t in let v = tstr t in OSetPair (b, a, v)
  | "initloop" -> let p = tstr t in let tags = tlist t in let rows = tlists t in OInitLoop (b, p, tags, rows)
  | "initmm" -> let p = tstr t in let tags = tlist t in let rows = tlists t in OInitMmcifLoop (b, p, tags, rows)
  | "moveitem" -> let o = tz t in let n = tz t in OMoveItem (b, o, n)
  | "table" ->
    let fk = next t in
    let prefix = tstr t in
    let f = (match fk with
      | "find" -> FFind (prefix, tlist t)
      | "any" -> FAny (prefix, tlist t)
      | "oradd" -> FOrAdd (prefix, tlist t)
      | "cat" -> FCat prefix
      | x -> failwith ("finder " ^ x)) in
    let top = (match next t with
      | "look" -> TLook
      | "append" -> TAppend (tlist t)
      | "rmrows" -> let a = tz t in let c = tz t in TRemoveRows (a, c)
      | "moverow" -> let a = tz t in let c = tz t in TMoveRow (a, c)
      | "ensure" -> TEnsureLoop
      | "erase" -> TErase
      | "colerase" -> TColErase (tz t)
      | x -> failwith ("tabop " ^ x)) in
    OTable (b, f, top)
  | "loop" ->
    let tag = tstr t in
    let lop = (match next t with
      | "look" -> LLook
      | "addrow" -> let v = tlist t in let p = tz t in LAddRow (v, p)
      | "addvalues" -> let v = tlist t in let p = tz t in LAddValues (v, p)
      | "poprow" -> LPopRow
      | "moverow" -> let a = tz t in let c = tz t in LMoveRow (a, c)
      | "addcols" -> let v = tlist t in let value = tstr t in let p = tz t in LAddColumns (v, value, p)
      | "rmcol" -> LRemoveColumn (tstr t)
      | "setall" -> LSetAll (tlists t)
      | x -> failwith ("loopop " ^ x)) in
    OLoop (b, tag, lop)
  | "colerase" -> OColErase (b, tstr t)
  | "findvalue" -> OFindValue (b, tstr t)
  | "findvalues" -> OFindValues (b, tstr t)
  | "getindex" -> OGetIndex (b, tstr t)
  | "hastag" -> OHasTag (b, tstr t)
  | "cats" -> OCats b
  | x -> failwith ("op " ^ x)

let join_out out = if out = [] then "." else String.concat "," (List.map hx out)

(* recompute the harness line; the initial document is taken from the first dump of the harness *)
let replay verbose spec got =
  let parts = String.split_on_char ';' spec in
  let gparts = String.split_on_char ';' got in
  let d0 = List.hd gparts in
  let doc = ref (parse_doc d0) in
  let b = Buffer.create 4096 in
  Buffer.add_string b (dump_doc !doc);
  let nops = List.length parts - 1 in
  let dead = ref false in
  List.iteri (fun k p ->
    if k > 0 && not !dead then begin
      let r = step !doc (parse_op p) in
      (match r.s_st with
       | SUB ->
         (* the model says this call has undefined behaviour in the C++ *)
         Buffer.add_string b ";UB"; dead := true
       | st ->
         doc := r.s_doc;
         let dd = dump_doc !doc in
         Buffer.add_string b (Printf.sprintf ";%s:%s:%s" (if st = SOk then "OK" else "EXC")
           (if st = SOk then join_out r.s_out else ".")
           (if verbose || k = nops then dd else hash_str dd)))
    end) parts;
  Buffer.contents b

let () =
  let n = ref 0 and bad = ref 0 in
  (try
    while true do
      let line = input_line stdin in
      match split_tab line with
      | [cmd; spec; got] when (cmd = "hist" || cmd = "histv") && got <> "CRASH" && got <> "TIMEOUT" ->
        incr n;
        let exp = (try replay (cmd = "histv") spec got with e -> "MODEL-ERROR " ^ Printexc.to_string e) in
        if exp <> got then begin
          incr bad;
          if !bad <= 200 then Printf.printf "MISMATCH\t%s\t%s\timpl=%s\tmodel=%s\n" cmd spec got exp
        end
      | _ -> ()
    done
  with End_of_file -> ());
  Printf.printf "SUMMARY\t%d\t%d\t%d\n" !n !bad 0
