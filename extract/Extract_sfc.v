From Coq Require Extraction ExtrOcamlBasic.
From GV Require Import Sfc.SfCache.
Extraction Blacklist String List Nat.
Extraction "sfc.ml" run empty tag tag_is_zero crun cspec Nat.pred.
