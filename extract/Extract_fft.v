From Coq Require Extraction ExtrOcamlBasic.
From GV Require Import Sym.AsuDefs Fft.Place Fft.AsuLookup.
Extraction Blacklist String List Nat.
Extraction "fft.ml" f_phi_on_grid operations sg_table asu_lookup asu_is_in row_asu.
