From Coq Require Extraction ExtrOcamlBasic.
From GV Require Import Sym.AsuDefs Fft.Place.
Extraction Blacklist String List Nat.
Extraction "fft.ml" f_phi_on_grid operations sg_table.
