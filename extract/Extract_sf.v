(* Extraction of the structure-factor family model. ExtrOcamlBasic only: Z/positive/Q stay Coq datatypes;
   the numeric functions are generic (their arithmetic is passed in by the driver as IEEE doubles + libm). *)
From Coq Require Extraction ExtrOcamlBasic.
From Coq Require Import QArith Qabs.
From GV Require Import Sf.FormFact Sf.FormFact_gen Sf.Fprime Sf.Fprime_gen.
Extraction Blacklist String List Nat.
Extraction "sf.ml"
  it92_get it92_get_exact it92_has c4322_get row_ab row_c xray_ab xray_c elec_ab abs_ab
  calculate_sf density_iso precalc_iso expsum_calc expsum_deriv density_aniso precalc_aniso_b expanisosum_calc
  s_scaled electron_count_ok_b
  cromer_f2 orbitals_of table_wf_b element_ok_b fp_index fp_rows fp_kpcor
  it92_rows it92_ions c4322_rows neutron_rows el_Cf el_D elem_atomic_number.
