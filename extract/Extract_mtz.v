(* Extraction of the MTZ-family model. ExtrOcamlBasic only: Z/positive/N stay Coq datatypes. *)
From Coq Require Extraction ExtrOcamlBasic.
From GV Require Import Base.Str Mtz.Fmt Mtz.Header Mtz.Data Mtz.RowBuf Mtz.SpecDefs Mtz.Spec_gen Mtz.Recipe.
Extraction Blacklist String List Nat.
Extraction "mtz.ml"
  emit_headers emit_headers_orig parse_main parse_record p0 parse_history_line parse_mtzhist parse_bh
  parse_btitle parse_btitle_orig key4 key3
  first20 read_first read_prefix file_prefix file_prefix_swapped
  loop_body put_item put_item_orig body_spec
  prepare_recipe shown m2c_merged_raw m2c_unmerged_raw.
