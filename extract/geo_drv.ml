(* Driver for the geometry family: recomputes each harness line with the extracted Coq model.
   C11: exact values in Q(sqrt D) are converted to floats only for the final comparison with gemmi's doubles
   (relative tolerance 1e-9 of the larger of |value| and the scale of its group). *)
let zi = z_of_int and iz = int_of_z

(* ---- exact numbers -> float *)
let rec pos_me = function            (* positive -> mantissa in [1,2), exponent *)
  | XH -> (1., 0)
  | XO p -> let (m, e) = pos_me p in (m, e + 1)
  | XI p -> let (m, e) = pos_me p in (m +. ldexp 1. (- (e + 1)), e + 1)
let z_me = function Z0 -> (0., 0) | Zpos p -> pos_me p | Zneg p -> let (m, e) = pos_me p in (-. m, e)
let float_of_q (x : q) =
  let (mn, en) = z_me x.qnum and (md, ed) = pos_me x.qden in
  ldexp (mn /. md) (en - ed)
let q_of_string s =
  match String.split_on_char '/' s with
  | [n] -> { qnum = zi (int_of_string n); qden = XH }
  | [n; d] -> qred { qnum = zi (int_of_string n); qden = pos_of_int (int_of_string d) }
  | _ -> failwith "q_of_string"
let qz n = { qnum = zi n; qden = XH }
let q0 = qz 0 and q1 = qz 1

(* ---- cells *)
type qc = { d : q; sd : float; c : qe cell; o : qe ops }
let half = { qnum = zi 1; qden = pos_of_int 2 }
let angle_of tok =   (* cos (rational), sin (element of Q(sqrt D)), exact-90 flag *)
  match tok with
  | "R" -> (q0, (q1, q0), true)
  | "H-" -> (qopp half, (q0, q1), false)
  | "H+" -> (half, (q0, q1), false)
  | t -> let t = q_of_string t in
    let t2 = qmult t t in
    let den = qplus q1 t2 in
    (qred (qdiv (qminus q1 t2) den), (qred (qdiv (qmult (qz 2) t) den), q0), false)
let cell_of w =
  match w with
  | a :: b :: c :: ta :: tb :: tg :: rest ->
    let (ca, sa, fa) = angle_of ta and (cb, sb, fb) = angle_of tb and (cg, sg, fg) = angle_of tg in
    let d = q_discr ca cb cg in
    let cl = qcell (q_of_string a) (q_of_string b) (q_of_string c) ca cb cg sa sb sg fa fb fg in
    if not (qcell_valid d cl) then failwith "invalid cell";
    ({ d = d; sd = sqrt (float_of_q d); c = cl; o = qO d }, rest)
  | _ -> failwith "cell_of"
let fl k ((p, q) : qe) = float_of_q p +. float_of_q q *. k.sd
let qe_q x : qe = (x, q0)
let qe_s s : qe = (q_of_string s, q0)

(* ---- tolerant comparison: groups of (model value) with a minimal scale *)
let tol = 1e-9
let compare_groups (groups : (float * float list) list) (got : string) =
  let gs = List.map float_of_string (words got) in
  let flat = List.concat (List.map snd groups) in
  if List.length gs <> List.length flat then false
  else begin
    let ok = ref true and rest = ref gs in
    List.iter (fun (minscale, vals) ->
      let scale = List.fold_left (fun a v -> max a (abs_float v)) minscale vals in
      List.iter (fun m ->
        (match !rest with
         | g :: t -> rest := t;
           if not (abs_float (g -. m) <= tol *. (max (abs_float m) scale)) then ok := false
         | [] -> ok := false)) vals) groups;
    !ok
  end
let show_groups groups =
  String.concat " " (List.map (fun v -> Printf.sprintf "%.17g" v) (List.concat (List.map snd groups)))

let v3l ((x, y), z) = [x; y; z]
let m9l ((r0, r1), r2) = v3l r0 @ v3l r1 @ v3l r2
let s6l (((((a, b), c), d), e), f) = [a; b; c; d; e; f]
let vec_of k = function x :: y :: z :: rest -> (((qe_s x, qe_s y), qe_s z), rest) | _ -> failwith "vec_of"
let zmat_of = function
  | [a;b;c;d;e;f;g;h;i] -> ((((zi a, zi b), zi c), ((zi d, zi e), zi f)), ((zi g, zi h), zi i))
  | _ -> failwith "zmat_of"
let rec take n l = if n = 0 then [] else match l with [] -> [] | x :: t -> x :: take (n - 1) t
let rec drop n l = if n = 0 then l else match l with [] -> [] | _ :: t -> drop (n - 1) t

type verdict = Same | Differ of string | NoPrediction

(* expected result, compared with `got` *)
let judge cmd args got : verdict =
  let w = words args in
  let tolerant groups = if compare_groups groups got then Same else Differ (show_groups groups) in
  let exact s = if s = got then Same else Differ s in
  match cmd with
  | "props" ->
    let (k, _) = cell_of w in
    let f = fl k and o = k.o and c = k.c in
    tolerant [ (0., [f (volume o c)]); (0., [f (ar o c)]); (0., [f (br o c)]); (0., [f (cr o c)]);
               (1., [f (car o c); f (cbr o c); f (cgr o c)]);
               (0., List.map f (m9l (orth o c))); (0., List.map f (m9l (frac o c)));
               (0., List.map f (s6l (metric_tensor o c)));
               (0., List.map f (s6l (reciprocal_metric_tensor o c))) ]
  | "recip" ->
    let (k, _) = cell_of w in
    let o = k.o in
    let r = reciprocal o k.c in
    let rr = reciprocal o r in
    let f = fl k in
    let one c = [ (0., [f c.ea]); (0., [f c.eb]); (0., [f c.ec]); (1., [f c.ca; f c.cb; f c.cg]);
                  (0., [f (volume o c)]) ] in
    tolerant (one r @ one rr)
  | "d2" ->
    let (k, rest) = cell_of w in
    (match rest with
     | [h; kk; l] ->
       let o = k.o in
       let qi s = o.oZ (zi (int_of_string s)) in
       let sc = List.fold_left max 0. (List.map (fun (x, e) -> let v = float_of_string x /. (fl k e) in v *. v)
                  [ (h, k.c.ea); (kk, k.c.eb); (l, k.c.ec) ]) in
       tolerant [ (sc, [fl k (calculate_1_d2 o k.c (qi h) (qi kk) (qi l))]) ]
     | _ -> failwith "d2")
  | "box" ->
    let (k, rest) = cell_of w in
    let (fmin, rest) = vec_of k rest in
    let (fmax, _) = vec_of k rest in
    let (bmin, bmax) = orthogonalize_box k.o k.c fmin fmax in
    let l = List.map (fl k) (v3l bmin @ v3l bmax) in
    tolerant [ (0., l) ]
  | "dist" ->
    let (k, rest) = cell_of w in
    let (p, rest) = vec_of k rest in
    let (q, _) = vec_of k rest in
    let d = distance_sq k.o k.c p q in
    let (d2, sh) = find_nearest_pbc_image k.o k.c q p in
    let sc = let s = fl k k.c.ea +. fl k k.c.eb +. fl k k.c.ec in 1e-3 *. s *. s in
    (match words got with
     | [g1; g2; s0; s1; s2] ->
       if not (compare_groups [ (sc, [fl k d]); (sc, [fl k d2]) ] (g1 ^ " " ^ g2)) then
         Differ (Printf.sprintf "%.17g %.17g" (fl k d) (fl k d2))
       else
         let shs = String.concat " " (List.map (fun e -> Printf.sprintf "%.0f" (fl k e +. 0.)) (v3l sh)) in
         let shs = String.concat " " (List.map (fun s -> if s = "-0" then "0" else s) (words shs)) in
         if shs = String.concat " " [s0; s1; s2] then Same else Differ ("shift " ^ shs)
     | _ -> Differ "format")
  | "compat" ->
    let (k, rest) = cell_of w in
    (match rest with
     | eps :: n :: ops ->
       let n = int_of_string n in
       let ints = List.map int_of_string ops in
       let rec mats i l = if i = 0 then [] else zmat_of (take 9 l) :: mats (i - 1) (drop 9 l) in
       let ms = mats n ints in
       let e = qe_s eps in
       let devs = List.map (fl k) (compat_devs k.o k.c ms) in
       let ef = fl k e in
       if List.exists (fun d -> abs_float (d -. ef) < 1e-6) devs then NoPrediction
       else exact (if is_compatible k.o k.c ms e then "1" else "0")
     | _ -> failwith "compat")
  | "cb" ->
    let (k, rest) = cell_of w in
    let m = zmat_of (List.map int_of_string rest) in
    tolerant [ (0., List.map (fl k) (s6l (changed_basis_backward_metric k.o k.c m))) ]
  | "walk" ->
    (* got = nu nv nw cu cv cw k pbc ku kv kw ratio_u ratio_v ratio_w : (idx du dv dw)*  *)
    (match String.split_on_char ':' got with
     | [hd; tl] ->
       (match words hd with
        | [nu; nv; nw; cu; cv; cw; k; pbc; ku; kv; kw; ru; rv; rw] ->
          let i s = zi (int_of_string s) in
          (* bins_to_visit on the exact value of the double ratio, away from rounding boundaries *)
          let q_of_float f =
            let (m, e) = frexp f in
            let mi = Int64.to_int (Int64.of_float (ldexp m 53)) in
            let rec pow2 n = if n = 0 then XH else XO (pow2 (n - 1)) in
            if e - 53 >= 0 then { qnum = zi (mi * (1 lsl (e - 53))); qden = XH }
            else qred { qnum = zi mi; qden = pow2 (53 - e) } in
          let chk_k ks rs =
            let r = float_of_string rs in
            let kr = float_of_string k *. r in
            if abs_float (r -. 1.000000001) < 1e-12 || (r > 1. && abs_float (kr -. Float.round kr) < 1e-9 *. kr)
            then true
            else int_of_z (bins_to_visit (i k) (q_of_float r)) = int_of_string ks in
          if not (chk_k ku ru && chk_k kv rv && chk_k kw rw) then Differ "bins_to_visit differs from the model"
          else
            let f = if pbc = "1" then walk else walk_clamped in
            let l = f (i nu) (i nv) (i nw) (i cu) (i cv) (i cw) (i ku) (i kv) (i kw) in
            let s = String.concat " " (List.map (fun (idx, ((du, dv), dw)) ->
                      Printf.sprintf "%d %d %d %d" (iz idx) (iz du) (iz dv) (iz dw)) l) in
            if words s = words tl then Same else Differ (hd ^ ": " ^ s)
        | _ -> Differ "format")
     | _ -> Differ "format")
  | _ -> NoPrediction

let () =
  let n = ref 0 and bad = ref 0 and skipped = ref 0 in
  (try
    while true do
      let line = input_line stdin in
      match split_tab line with
      | [cmd; args; got] ->
        incr n;
        (match (try judge cmd args got with e -> Differ ("MODEL-ERROR " ^ Printexc.to_string e)) with
         | NoPrediction -> incr skipped
         | Same -> ()
         | Differ exp ->
           incr bad;
           if !bad <= 200 then Printf.printf "MISMATCH\t%s\t%s\timpl=%s\tmodel=%s\n" cmd args got exp)
      | _ -> ()
    done
  with End_of_file -> ());
  Printf.printf "SUMMARY\t%d\t%d\t%d\n" !n !bad !skipped
