(* Shared glue for the extracted-model drivers (textually prepended after `open <Model>`). *)
let rec pos_of_int n =
  if n = 1 then XH else if n land 1 = 0 then XO (pos_of_int (n lsr 1)) else XI (pos_of_int (n lsr 1))
let z_of_int n = if n = 0 then Z0 else if n > 0 then Zpos (pos_of_int n) else Zneg (pos_of_int (- n))
let rec int_of_pos = function XH -> 1 | XO p -> 2 * int_of_pos p | XI p -> 2 * int_of_pos p + 1
let int_of_z = function Z0 -> 0 | Zpos p -> int_of_pos p | Zneg p -> - (int_of_pos p)
let rec int_of_nat = function O -> 0 | S n -> 1 + int_of_nat n
let rec nat_of_int n = if n <= 0 then O else S (nat_of_int (n - 1))
(* decimal strings of arbitrary size <-> z *)
let z_of_string s = z_of_int (int_of_string s)
let string_of_z z = string_of_int (int_of_z z)
let str_of_string (s : string) = List.init (String.length s) (fun i -> z_of_int (Char.code s.[i]))
let string_of_str l = String.concat "" (List.map (fun z -> String.make 1 (Char.chr ((int_of_z z) land 255))) l)
let hex_decode h =
  if h = "-" then "" else
  String.init (String.length h / 2) (fun i -> Char.chr (int_of_string ("0x" ^ String.sub h (2 * i) 2)))
let hex_encode s =
  if s = "" then "-" else
  String.concat "" (List.init (String.length s) (fun i -> Printf.sprintf "%02x" (Char.code s.[i])))
let words s = List.filter (fun w -> w <> "") (String.split_on_char ' ' s)
let split_tab s = String.split_on_char '\t' s
(* main loop: for each line cmd \t args \t got, compute expected; print mismatches.
   expected = None means the model makes no prediction for this case (counted as skipped). *)
let serve (f : string -> string -> string option) =
  let n = ref 0 and bad = ref 0 and skipped = ref 0 in
  (try
    while true do
      let line = input_line stdin in
      match split_tab line with
      | [cmd; args; got] ->
        incr n;
        (match (try f cmd args with e -> Some ("MODEL-ERROR " ^ Printexc.to_string e)) with
         | None -> incr skipped
         | Some exp ->
           if exp <> got then begin
             incr bad;
             if !bad <= 200 then Printf.printf "MISMATCH\t%s\t%s\timpl=%s\tmodel=%s\n" cmd args got exp
           end)
      | _ -> ()
    done
  with End_of_file -> ());
  Printf.printf "SUMMARY\t%d\t%d\t%d\n" !n !bad !skipped
