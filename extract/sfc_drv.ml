(* Driver for the form-factor cache model (C15): recomputes `sfseq` lines symbolically.
   args: table ignore_charge stol2_milli el:ch el:ch ...   result per call: T (the value of its own (el, ch)) or F,
   then ":" and the ordinals of the elements whose cache slot is filled after the call. *)
let zi = z_of_int and iz = int_of_z
let handle cmd args : string option =
  match cmd, words args with
  | "sfseq", _ :: _ :: _ :: calls ->
    let cs = List.map (fun w -> match String.split_on_char ':' w with
        | [e; c] -> (zi (int_of_string e), zi (int_of_string c)) | _ -> failwith "sfseq") calls in
    let els = List.sort_uniq compare (List.map (fun (e, _) -> iz e) cs) in
    (* replay prefix by prefix to read the cache occupancy after every call *)
    let rec prefixes acc = function [] -> [] | x :: t -> let p = acc @ [x] in p :: prefixes p t in
    let toks = List.map (fun p ->
        let (c, vs) = run tag_is_zero tag (empty Z0) p in
        let (e, ch) = List.nth p (List.length p - 1) in
        let v = List.nth vs (List.length vs - 1) in
        let ok = if v = tag e ch then "T" else "F" in
        let filled = List.filter (fun e -> not (tag_is_zero (c (zi e)))) els in
        ok ^ ":" ^ String.concat "," (List.map string_of_int filled)) (prefixes [] cs) in
    Some (String.concat " " toks)
  | _ -> None
let () = serve handle
