(* Driver for the form-factor cache model (C15): recomputes `sfseq` lines symbolically.
   args: table ignore_charge stol2_milli el:ch el:ch ...   result per call: T (the value of its own (el, ch)) or F,
   then ":" and the ordinals of the elements whose cache slot is filled after the call. *)
let zi = z_of_int and iz = int_of_z
let handle cmd args : string option =
  match cmd, words args with
  | "sfseq", _ :: _ :: _ :: calls ->
    let cs = List.map (fun w -> match String.split_on_char ':' w with
        | [e; c] -> (zi (int_of_string e), zi (int_of_string c)) | _ -> failwith "sfseq") calls in
    let els = List.sort_uniq compare (List.map (fun (e, _) -> iz e) cs) in
    (* replay prefix by prefix to read the cache occupancy after every call *)
    let rec prefixes acc = function [] -> [] | x :: t -> let p = acc @ [x] in p :: prefixes p t in
    let toks = List.map (fun p ->
        let (c, vs) = run tag_is_zero tag (empty Z0) p in
        let (e, ch) = List.nth p (List.length p - 1) in
        let v = List.nth vs (List.length vs - 1) in
        let ok = if v = tag e ch then "T" else "F" in
        let filled = List.filter (fun e -> not (tag_is_zero (c (zi e)))) els in
        ok ^ ":" ^ String.concat "," (List.map string_of_int filled)) (prefixes [] cs) in
    Some (String.concat " " toks)
  | "sfhist", _ :: ops ->
    (* several reflections on one calculator: R<world> installs reflection + addends number <world> (and empties the cache),
       G<el>:<ch> asks for a form factor; per G the harness reports T when the value is that of (el, ch) in the world
       installed last. The symbolic world value is tag (el + 1000 * world) ch. *)
    let parse w = if w.[0] = 'R' then Reset (zi (int_of_string (String.sub w 1 (String.length w - 1))))
      else (match String.split_on_char ':' (String.sub w 1 (String.length w - 1)) with
          | [e; c] -> Get (zi (int_of_string e), zi (int_of_string c)) | _ -> failwith "sfhist") in
    let cops = List.map parse ops in
    let wval w e c = tag (Z.add e (Z.mul (zi 1000) w)) c in
    let got = crun Z0 tag_is_zero wval (Z0, empty Z0) cops and want = cspec wval Z0 cops in
    Some (String.concat " " (List.filter_map (fun x -> x)
      (List.map2 (fun g w -> match g, w with Some a, Some b -> Some (if a = b then "T" else "F") | _ -> None) got want)))
  | _ -> None
let () = serve handle
