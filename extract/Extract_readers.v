From Coq Require Extraction ExtrOcamlBasic.
From GV Require Import Readers.Pir.
Extraction Blacklist String List Nat.
Extraction "readers.ml" read_pir_or_fasta.
