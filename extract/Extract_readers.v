From Coq Require Extraction ExtrOcamlBasic.
From GV Require Import Readers.Pir Readers.OperExpr.
Extraction Blacklist String List Nat.
Extraction "readers.ml" read_pir_or_fasta parse_operation_expr count print_int.
