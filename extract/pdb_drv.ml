(* Driver for the PDB family: recomputes each harness line with the extracted Coq model. *)
let zi = z_of_int and iz = int_of_z
let str_of_hex h = str_of_string (hex_decode h)
let hex_of_str l = hex_encode (string_of_str l)
let tail = str_of_string "7Z\n"
let seqid_s (num, icode) =
  (match num with Some n -> string_of_int (iz n) | None -> "N") ^ ":" ^ string_of_int (iz icode)
let addr_s with_atom a =
  hex_of_str a.a_chain ^ " " ^ hex_of_str a.a_res ^ " " ^ seqid_s a.a_seq ^
  (if with_atom then " " ^ hex_of_str a.a_atom else "")
let rec pad_to n l = if List.length l >= n then l else pad_to n (l @ [Z0])

let dump (s : pst) =
  let b = Buffer.create 256 in
  List.iter (fun e ->
    Buffer.add_string b ("E " ^ hex_of_str e.e_name ^ " " ^ string_of_int (List.length e.e_seq));
    List.iter (fun r -> Buffer.add_string b (" " ^ hex_of_str r)) e.e_seq;
    Buffer.add_string b (" " ^ string_of_int (List.length e.e_db));
    List.iter (fun d -> Buffer.add_string b (" " ^ hex_of_str d.db_name ^ " " ^ hex_of_str d.db_acc ^ " " ^
      hex_of_str d.db_id ^ " " ^ seqid_s d.db_sb ^ " " ^ seqid_s d.db_se ^ " " ^ seqid_s d.db_b ^ " " ^ seqid_s d.db_e)) e.e_db;
    Buffer.add_string b " ; ") s.p_ents;
  List.iter (fun m -> Buffer.add_string b ("M " ^ hex_of_str m.m_chain ^ " " ^ hex_of_str m.m_res ^ " " ^ seqid_s m.m_seq ^
    " " ^ hex_of_str m.m_parent ^ " " ^ hex_of_str m.m_modid ^ " " ^ hex_of_str m.m_details ^ " ; ")) s.p_mod;
  List.iter (fun h -> Buffer.add_string b ("H " ^ addr_s false h.h_start ^ " " ^ addr_s false h.h_end ^ " " ^
    string_of_int (iz h.h_class) ^ " " ^ string_of_int (iz h.h_length) ^ " ; ")) s.p_hel;
  List.iter (fun sh ->
    Buffer.add_string b ("S " ^ hex_of_str sh.sh_name ^ " " ^ string_of_int (List.length sh.sh_strands));
    List.iter (fun t -> Buffer.add_string b (" " ^ addr_s false t.s_start ^ " " ^ addr_s false t.s_end ^ " " ^
      string_of_int (iz t.s_sense) ^ " " ^ addr_s true t.s_hb2 ^ " " ^ addr_s true t.s_hb1)) sh.sh_strands;
    Buffer.add_string b " ; ") s.p_sheets;
  List.iter (fun (k, v) ->
    Buffer.add_string b ("C " ^ string_of_int (iz k) ^ " " ^ string_of_int (List.length v));
    List.iter (fun n -> Buffer.add_string b (" " ^ string_of_int (iz n))) v;
    Buffer.add_string b " ; ") s.p_conect;
  if Buffer.length b = 0 then "-" else Buffer.contents b

let handle cmd args : string option =
  let w = words args in
  match cmd, w with
  | "ser", [n] -> let e = encode_serial (zi (int_of_string n)) in
    Some (hex_of_str e ^ " " ^ string_of_int (iz (read_serial (field5 e @ tail))))
  | "sid", [n; ic] -> let e = write_seq_id (zi (int_of_string n)) (zi (int_of_string ic)) in
    Some (hex_of_str e ^ " " ^ seqid_s (read_seq_id (field5 e @ tail)))
  | "b36", [wd; v] -> Some (hex_of_str (base36_encode (nat_of_int (int_of_string wd)) (zi (int_of_string v))))
  | "rser", [h] -> Some (string_of_int (iz (read_serial (str_of_hex h))))
  | "rsid", [h] -> Some (seqid_s (read_seq_id (str_of_hex h)))
  | "rint", [n; h] -> Some (string_of_int (iz (read_int (nat_of_int (int_of_string n)) (str_of_hex h))))
  | "rstr", [n; h] -> Some (hex_of_str (read_string (nat_of_int (int_of_string n)) (str_of_hex h)))
  | "rchg", [d; s] -> Some (match read_charge (zi (int_of_string d)) (zi (int_of_string s)) with
                            | Some q -> string_of_int (iz q) | None -> "EXC")
  | "copyline", [size; hb; hd] ->
    let buf = pad_to 122 (str_of_hex hb) and d = str_of_hex hd in
    (match copy_line buf (nat_of_int (int_of_string size)) d with
     | None -> Some ("0 0 " ^ hex_of_str buf)
     | Some ((b, len), r) -> Some (string_of_int (int_of_nat len) ^ " " ^
                                   string_of_int (List.length d - List.length r) ^ " " ^ hex_of_str b))
  | "subch", (_ :: rest) ->
    let rec chains = function
      | name :: types :: t ->
        let types = if types = "-" then "" else types in
        (str_of_hex name, List.init (String.length types) (fun i ->
           match types.[i] with 'P' -> Polymer | 'N' -> NonPolymer | 'B' -> Branched | 'W' -> Water | _ -> Unknown)) :: chains t
      | _ -> [] in
    let cs = chains rest in
    let out = model_names cs [] in
    Some (String.concat ";" (List.map2 (fun (_, types) o ->
      if types = [] then "_" else
      match o with
      | Some l -> String.concat "," (List.map hex_of_str l)
      | None -> String.concat "," (List.map (fun _ -> "-") types)) cs out))
  | "ccd", names ->
    (* residue names (hex) of one chain: the alias table, the names after shorten_ccd_codes, after restore_full_ccd_codes *)
    let ns = List.map (fun h -> if h = "-" then [] else str_of_hex h) names in
    let t = shorten_table ns in
    let hx l = if l = [] then "-" else hex_of_str l in
    let short = apply_shorten t ns in
    Some (String.concat " " (List.map (fun (o, a) -> hx o ^ ">" ^ hx a) t) ^ " | " ^
          String.concat " " (List.map hx short) ^ " | " ^
          String.concat " " (List.map hx (apply_restore t short)))
  | "rows", _ ->
    (* handled in handle_full: the expected value depends on the first half of the implementation's answer *)
    None
  | "recs", [h; maxlen] -> Some (dump (parse_records (zi (int_of_string maxlen)) (str_of_hex h)))
  | _ -> None

(* rows: "<rows of the structure>| <rows after mmCIF write+read>"; the model regroups the first list *)
let parse_rows (t : string) =
  if String.trim t = "-" then [] else
  List.filter_map (fun item ->
    match words item with
    | [num; cn; rn; seq; ic; an; alt] ->
      Some (((zi (int_of_string num), str_of_hex cn), ((str_of_hex rn, zi (int_of_string seq)), zi (int_of_string ic))),
            (str_of_hex an, zi (int_of_string alt)))
    | _ -> None) (String.split_on_char ';' t)
let print_rows rows =
  if rows = [] then "-" else
  String.concat "" (List.map (fun (((num, cn), ((rn, seq), ic)), (an, alt)) ->
    Printf.sprintf "%d %s %s %d %d %s %d ; " (iz num) (hex_of_str cn) (hex_of_str rn) (iz seq) (iz ic) (hex_of_str an) (iz alt)) rows)
(* atomline: "L <hex line> R <fields read back>"; the model writes the line from the fields (numeric columns taken
   from the implementation's line) and reads it back *)
let atomline_expected (args : string) (got : string) : string option =
  match words args, words got with
  | [het; serial; hname; el; altloc; hres; hchain; seqnum; icode; hseg; charge; _; _; _; _; _], ("L" :: hline :: "R" :: rfields) ->
    let line = hex_decode hline in
    if String.length line <> 80 then None else
    let sub a n = str_of_string (String.sub line a n) in
    let elu = String.uppercase_ascii el in
    let t = { t_het = (het = "1"); t_serial = zi (int_of_string serial); t_name = str_of_hex hname;
              t_el = str_of_string elu; t_ish = (elu = "H" || elu = "D"); t_altloc = zi (int_of_string altloc);
              t_resname = str_of_hex hres; t_chain = str_of_hex hchain; t_seqnum = zi (int_of_string seqnum);
              t_icode = zi (int_of_string icode); t_segment = str_of_hex hseg; t_charge = zi (int_of_string charge) } in
    let ml = atom_line t (sub 30 24) (sub 54 6) (sub 60 6) in
    let rest = [zi 10; zi 0] @ List.init 40 (fun _ -> zi 32) in
    let r = read_atom (ml @ rest) (nat_of_int (List.length ml + 1)) in
    let impl_elem = (match List.rev rfields with e :: _ -> e | [] -> "?") in
    let elem = (match r.r_elem with
      | Some (a, b) -> String.uppercase_ascii (String.trim (string_of_str [a; b]))
      | None -> impl_elem) in
    let rd = (match r.r_charge with
      | None -> "EXC"
      | Some q ->
        String.concat " " [ (if r.r_het then "H" else "A"); string_of_int (iz r.r_serial); hex_of_str r.r_name;
          string_of_int (iz r.r_altloc); hex_of_str r.r_resname; hex_of_str r.r_chain;
          (match fst r.r_seq with Some n -> string_of_int (iz n) | None -> "none"); string_of_int (iz (snd r.r_seq));
          hex_of_str r.r_segment; string_of_int (iz q); elem ]) in
    Some ("L " ^ hex_of_str ml ^ " R " ^ rd)
  | _ -> None
let () =
  (* wrap serve: for `rows` the prediction is built from the first half of the observed line *)
  let n = ref 0 and bad = ref 0 and skipped = ref 0 in
  (try
    while true do
      let line = input_line stdin in
      match split_tab line with
      | [cmd; args; got] ->
        incr n;
        let exp =
          if cmd = "rows" then
            (match String.index_opt got '|' with
             | Some i -> let first = String.sub got 0 i in
               (try Some (first ^ "| " ^ print_rows (to_rows (of_rows (parse_rows first)))) with e -> Some ("MODEL-ERROR " ^ Printexc.to_string e))
             | None -> None)
          else if cmd = "atomline" then
            (try atomline_expected args got with e -> Some ("MODEL-ERROR " ^ Printexc.to_string e))
          else (try handle cmd args with e -> Some ("MODEL-ERROR " ^ Printexc.to_string e)) in
        (match exp with
         | None -> incr skipped
         | Some exp -> if exp <> got then begin
             incr bad;
             if !bad <= 200 then Printf.printf "MISMATCH\t%s\t%s\timpl=%s\tmodel=%s\n" cmd args got exp end)
      | _ -> ()
    done
  with End_of_file -> ());
  Printf.printf "SUMMARY\t%d\t%d\t%d\n" !n !bad !skipped
