(* Driver for the CIF family: recomputes each harness line with the extracted Coq model. *)
let zi = z_of_int and iz = int_of_z
let b01 b = if b then "1" else "0"
let hx l = hex_encode (string_of_str l)
let unhx h = str_of_string (hex_decode h)

let fnv (s : string) : string =
  let h = ref 0xcbf29ce484222325L in
  String.iter (fun c -> h := Int64.mul (Int64.logxor !h (Int64.of_int (Char.code c))) 0x100000001b3L) s;
  Printf.sprintf "%016Lx" !h
let digest (s : string) : string =
  let r = Printf.sprintf "%d %s" (String.length s) (fnv s) in
  if String.length s <= 1500 then r ^ " " ^ hex_encode s else r

let opts_of = function
  | pp :: c :: h :: ap :: al :: rest ->
    ({ prefer_pairs = pp <> "0"; compact = c <> "0"; misuse_hash = h <> "0";
       align_pairs = zi (int_of_string ap); align_loops = zi (int_of_string al) }, rest)
  | _ -> failwith "opts"

let rec take n l = if n = 0 then [] else match l with [] -> failwith "take" | x :: t -> x :: take (n - 1) t
let rec drop n l = if n = 0 then l else match l with [] -> failwith "drop" | _ :: t -> drop (n - 1) t

(* DOM tokens -> (items, rest) *)
let rec read_items (w : string list) (in_frame : bool) : item list * string list =
  match w with
  | [] -> ([], [])
  | "B" :: _ -> ([], w)
  | "E" :: t -> ([], if in_frame then t else w)
  | "P" :: a :: b :: t -> let (r, t') = read_items t in_frame in (Pair (unhx a, unhx b) :: r, t')
  | "L" :: nt :: nv :: t ->
    let nt = int_of_string nt and nv = int_of_string nv in
    let tags = List.map unhx (take nt t) in
    let vals = List.map unhx (take nv (drop nt t)) in
    let (r, t') = read_items (drop (nt + nv) t) in_frame in (Loop (tags, vals) :: r, t')
  | "F" :: n :: t ->
    let (inner, t1) = read_items t true in
    let (r, t') = read_items t1 in_frame in (Frame (unhx n, inner) :: r, t')
  | "C" :: c :: t -> let (r, t') = read_items t in_frame in (Comment (unhx c) :: r, t')
  | "X" :: t -> let (r, t') = read_items t in_frame in (Erased :: r, t')
  | _ -> failwith "dom token"
let rec read_dom (w : string list) : block list =
  match w with
  | [] -> []
  | "B" :: n :: t -> let (its, t') = read_items t false in { bname = unhx n; bitems = its } :: read_dom t'
  | _ -> failwith "expected B"

let handle cmd args : string option =
  let w = words args in
  match cmd with
  | "q" -> (match w with
    | [h] -> let s = unhx h in
      Some (Printf.sprintf "%s %s %s %s" (b01 (is_null s)) (b01 (is_text_field s))
              (match as_string s with Some r -> hx r | None -> "EXC") (hx (quote s)))
    | _ -> None)
  | "jnum" -> (match w with
    (* a CIF number -> the text JsonWriter::write_as_number puts into the JSON file, and whether JSON accepts it *)
    | [h] -> let o = write_as_number (unhx h) in Some (Printf.sprintf "%s %s" (hx o) (b01 (json_number o)))
    | _ -> None)
  | "lex" -> (match w with
    | [b; h] -> Some (match lex_value (b <> "0") (unhx h) with
                      | LexOk (tok, _) -> Printf.sprintf "OK %d" (List.length tok)
                      | LexNo -> "NO" | LexErr -> "ERR")
    | _ -> None)
  | "write" ->
    let (o, rest) = opts_of w in
    let d = read_dom rest in
    (* the model speaks only when every block's trace stays inside the buffer *)
    if List.for_all (fun b -> in_bounds Z0 (block_ops o b)) d
    then Some (digest (string_of_str (write_cif o d)))
    else Some "MODEL: BUFFER OVERFLOW"
  | "buf" ->
    let k = ref (-1) in
    let ops = List.map (fun t ->
      incr k;
      let n = if String.length t > 1 then int_of_string (String.sub t 1 (String.length t - 1)) else 0 in
      let ch = zi (97 + !k mod 26) in
      match t.[0] with
      | 'w' -> OWrite (List.init n (fun _ -> ch))
      | 'p' -> OPut ch
      | 'P' -> OPad (zi n)
      | _ -> failwith "op") w in
    if not (in_bounds Z0 ops) then Some "MODEL: BUFFER OVERFLOW" else
    let pos = String.concat "" (List.map (fun z -> string_of_int (iz z) ^ " ") (positions Z0 ops)) in
    let out = string_of_str (buffered_output ops) in
    Some (Printf.sprintf "%s| %d %s" pos (String.length out) (fnv out))
  | _ -> None

let () = serve handle
