(* Driver for the placement model (C14). *)
let zi = z_of_int and iz = int_of_z
let table = Array.of_list sg_table
let cache = Hashtbl.create 600
let row_ops i = match Hashtbl.find_opt cache i with
  | Some g -> g | None -> let g = operations table.(i) in Hashtbl.add cache i g; g
let modp a n = ((a mod n) + n) mod n
let rec refls i = function
  | h :: k :: l :: t -> (zi (i + 1), ((zi h, zi k), zi l)) :: refls (i + 1) t
  | _ -> []
let handle cmd args : string option =
  match cmd, List.map int_of_string (words args) with
  | "place", row :: nu :: nv :: nw :: half :: zyx :: _n :: rest ->
    (match row_ops row with
     | HOk gr ->
       let (g, m) = f_phi_on_grid ((zi nu, zi nv), zi nw) (half <> 0) (zyx <> 0) gr (refls 0 rest) in
       let items = List.map (fun (idx, ((ser, sg), sh)) -> (iz idx, iz ser, iz sg, modp (iz sh) 24)) m in
       let items = List.sort compare items in
       Some (Printf.sprintf "%d %d %d%s" (iz g.g_nu) (iz g.g_nv) (iz g.g_nw)
               (String.concat "" (List.map (fun (i, s, sg, k) -> Printf.sprintf " %d:%d:%d:%d" i s sg k) items)))
     | _ -> Some "EXC")
  | "alook", nu :: nv :: nw :: half :: rest ->
    (* prepare_asu_data on a P 1 grid nu x nv x nw (nw = planes stored): for each listed hkl the slot read and the
       conjugation flag, "-" when the reflection is not listed (outside the ASU or the index range) *)
    let g = { g_nu = zi nu; g_nv = zi nv; g_nw = zi nw; g_half = (half <> 0); g_zyx = false } in
    let a = row_asu table.(0) false in
    let maxh = (nu - 1) / 2 and maxk = (nv - 1) / 2 and maxl = if half <> 0 then nw - 1 else (nw - 1) / 2 in
    let rec go = function
      | h :: k :: l :: t ->
        let hkl = ((zi h, zi k), zi l) in
        let listed = abs h <= maxh && abs k <= maxk && abs l <= maxl && asu_is_in a hkl && (l >= 0 || half <> 0) in
        (if listed then let (i, c) = asu_lookup g hkl in Printf.sprintf "%d:%d" (iz i) (if c then 1 else 0) else "-") :: go t
      | _ -> [] in
    Some (String.concat " " (go rest))
  | _ -> None
let () = serve handle
